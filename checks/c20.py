"""C20 — idle connections are reaped after the timeout and active ones never are.

Threadless: the product's own _run_forever() (real reaper cadence) is driven iteration by iteration under a
virtual clock that only the harness moves.  Threaded: the thread-per-connection handler runs freely under the
same virtual clock and its loop iterations are counted.  A case is a timed trace of client writes/reads,
upstream writes and clock advances; the clock is frozen while the proxy handles an event, so the proxy's
notion of "last client-side activity" equals the virtual time at which the harness caused that I/O.
Boundary oracle: the iteration at which the client sees end-of-stream.
  never early   - EOF only when virtual idle time > timeout and no output was pending;
  bounded delay - once idle time > timeout with nothing pending: EOF within one reaper period (+2 iterations)
                  in threadless mode, within a few handler-loop iterations in threaded mode.
"""
import math
import random
import time as real_time
from typing import Any, Dict, List, Optional, Tuple

from rig import env, driver, shim, monitors, h11util, conv, vclock, gen_http as G

env.quiet_logging()

from rig.steprig import StepRig, make_flags, LoopDied      # noqa: E402
from rig.threadrig import ThreadRig                         # noqa: E402

from proxy.http.handler import HttpProtocolHandler          # noqa: E402
from proxy.common.constants import DEFAULT_SELECTOR_SELECT_TIMEOUT, DEFAULT_WAIT_FOR_TASKS_TIMEOUT, DEFAULT_INACTIVE_CONN_CLEANUP_TIMEOUT   # noqa: E402

PROPERTY = 'C20'
LEVEL = 'exploration'
LEVEL_TEXT = ('Exploration: seeded timed traces (timeouts 1/5/10/3600 s from the command line and 0.9/1.9/2.5 s through the embedding keyword; scenarios: silent connection, partial request, '
              'keep-alive HTTP exchange, tunnel with client->upstream traffic only, upstream->client traffic only, both, '
              'pending undelivered output, a busy neighbour connection on the same worker; series of sub-threshold gaps '
              'followed by a final gap at timeout-eps / timeout+eps, eps = 1 ms or 0.5 s) x threadless (real _run_forever '
              'reaper cadence, counted iterations) / threaded (counted handler iterations) under a virtual clock. '
              'Judged at the client socket by a threshold predicate on virtual idle time.')
LEVEL_NOTE = ('Trusted: the virtual clock shim (only proxy.http.handler reads it), iteration counting. The exact boundary '
              'idle == timeout is not judged. The reaper period is computed from the product constants: '
              'ceil(cleanup_timeout / (select_timeout + wait_timeout)) iterations.')
TECHNIQUE = 'runtime monitoring under a virtual clock: EOF iteration at the client vs threshold predicate on virtual idle time; reaper cadence in counted iterations'
RULE = ('case = (scenario, timeout, gap series, final epsilon, rig); non-trivial = the trace contains client-side activity '
        'after the first request or pending output; distinct = scenario x timeout x eps x rig x gaps')
ASSUMPTIONS = ['the upstream stays connected (no protocol-level reason to close)', 'clock is frozen while events are handled']
SHARDS = {'quick': 8, 'thorough': 16}
BUDGET_S = {'quick': 45, 'thorough': 800}

REAPER_PERIOD = int(math.ceil(DEFAULT_INACTIVE_CONN_CLEANUP_TIMEOUT / (DEFAULT_SELECTOR_SELECT_TIMEOUT + DEFAULT_WAIT_FOR_TASKS_TIMEOUT))) + 1
K_THREADLESS = REAPER_PERIOD + 2
K_THREADED = 6

_evals: List[Tuple[bool, float, bool]] = []
_orig_is_inactive = HttpProtocolHandler.is_inactive


def _watched_is_inactive(self: Any) -> bool:
    r = _orig_is_inactive(self)
    try:
        _evals.append((bool(r), self._connection_inactive_for(), bool(self.work.has_buffer())))
    except Exception:
        pass
    return r


HttpProtocolHandler.is_inactive = _watched_is_inactive     # type: ignore[method-assign]   (secondary monitor)


def run_case(case: Dict[str, Any]) -> Dict[str, Any]:
    if case['rig'] == 'thread':
        return run_threaded(case)
    return run_threadless(case)


class Conn:
    """One client(+origin) pair and the harness's own record of the last client-side I/O in virtual time."""

    def __init__(self) -> None:
        self.client: Any = None
        self.oc: Any = None
        self.last_io = 0.0
        self.expect_c = b''
        self.expect_o = b''


def flags_T(T: Any, key: str, extra: Any = (), **kw: Any) -> Any:
    """Whole seconds come from the command line (--timeout is an integer option); a non-integral timeout can only be given
    through the embedding API's keyword (proxy.Proxy([...], timeout=1.9)) and is the configured value just the same."""
    if isinstance(T, float) and T != int(T):
        return make_flags(list(extra), cache_key='%s:kw:%s' % (key, T), timeout=T, **kw)
    return make_flags(['--timeout', str(T)] + list(extra), cache_key='%s:%s' % (key, T), **kw)


def run_threadless(case: Dict[str, Any]) -> Dict[str, Any]:
    rng = random.Random('c20:%s:%s' % (case['seed'], case['i']))
    T = case['timeout']
    scen = case['scenario']
    vc = vclock.install()
    shim.S.reset()
    del _evals[:]
    flags = flags_T(T, 'c20')
    rig = StepRig(flags, 'local')
    viol: List[Dict[str, Any]] = []
    obs: Dict[str, int] = {}
    feat = '%s|threadless' % scen
    prog: List[Tuple[Any, ...]] = []
    main = Conn()
    busy = Conn()
    state: Dict[str, Any] = {'pc': 0, 'wait': 0, 'eof_iter': None, 'iter': 0, 'deadline': None, 'must_stay_open_until': None,
                             'closed_early': None, 'late': None, 'pending': False, 'done': False}

    def bad(kind: str, **d: Any) -> None:
        d.update({'timeout': T, 'scenario': scen, 'gaps': case['gaps'], 'eps': case['eps'], 'idle_now': vc.now - main.last_io,
                  'evals_tail': _evals[-3:], 'iter': state['iter']})
        viol.append({'key': '%s|%s' % (feat, kind), 'detail': d})

    class _Done(Exception):
        pass
    try:
        origin = rig.add_origin('127.0.%d.%d' % (rng.randint(0, 250), rng.randint(2, 250)))
        hp = origin.hostport

        def open_conn(c: Conn, tunnel: bool, request: bool = True) -> None:
            c.client = rig.add_client('unix')
            c.last_io = vc.now
            if not request:
                rig.step(2)
                return
            if tunnel:
                c.client.send(b'CONNECT %s HTTP/1.1\r\nHost: %s\r\n\r\n' % (hp, hp))
            else:
                c.client.send(b'GET http://%s/x HTTP/1.1\r\nHost: %s\r\n%s\r\n' % (hp, hp, EXTRA_HEADERS[case.get('req_headers', 'none')] if c is main else b''))
            box: Dict[str, Any] = {}

            def acc() -> bool:
                p = origin.accept()
                if p is not None:
                    box['oc'] = p
                return 'oc' in box
            rig.until(acc, [c.client])
            c.oc = box['oc']
            if tunnel:
                rig.until(lambda: b'\r\n\r\n' in c.client.rx, [c.client, c.oc])
            else:
                rig.until(lambda: b'\r\n\r\n' in c.oc.rx, [c.client, c.oc])
                c.oc.send(b'HTTP/1.1 200 OK\r\nContent-Length: 2\r\n\r\nok')
                rig.until(lambda: c.client.rx.endswith(b'ok'), [c.client, c.oc])
            c.client.rx = bytearray()
            c.oc.rx = bytearray()
            c.last_io = vc.now
        # ---- set the scene (single steps; the timed part below runs under the real _run_forever) ----
        if case.get('busy_neighbour') == 'older':
            open_conn(busy, True)       # accepted BEFORE the connection under test: the reaper meets the active one first
        if scen == 'silent':
            open_conn(main, False, request=False)
        elif scen == 'partial-request':
            main.client = rig.add_client('unix')
            main.client.send(b'GET http://%s/x HTTP/1.1\r\nHos' % hp)
            rig.step(3)
            main.last_io = vc.now
        elif scen in ('http-keepalive', 'upstream-drain'):
            open_conn(main, False)
        else:
            open_conn(main, True)
        if case.get('busy_neighbour') and busy.client is None:
            open_conn(busy, True)
        # ---- the timed program ----
        acts = {'tunnel-c2o': ['c-send'], 'tunnel-o2c': ['o-send'], 'tunnel-both': ['c-send', 'o-send'], 'http-keepalive': ['req'],
                'pending-output': ['c-send'], 'silent': [], 'partial-request': ['c-more']}.get(scen, [])
        if scen == 'pending-output':
            prog.append(('o-flood', case.get('flood', 3000000)))
            prog.append(('settle', 30))
            # idle far beyond the timeout, with output still pending: must stay open
            prog.append(('advance', T * 3 + 1.0))
            prog.append(('stay-open', 2 * K_THREADLESS))
            prog.append(('advance', T + 5.0))
            prog.append(('stay-open', K_THREADLESS))
            prog.append(('c-drain',))
            prog.append(('settle', 10))
        if scen == 'upstream-drain':
            # the client has said everything (a large upload, all of it inside the proxy), nothing is owed to it, and the proxy
            # spends the following timeouts feeding a slow origin: upstream-side activity only.  The client side is idle.
            prog.append(('c-upload', case.get('upload', 12000000)))
            prog.append(('settle-upload',))
        for g in (case['gaps'] if scen != 'upstream-drain' else []):
            prog.append(('advance', g * T))
            prog.append(('stay-open', rng.choice([3, K_THREADLESS + 3])))
            if acts:
                prog.append((rng.choice(acts),))
                prog.append(('settle', 6))
        eps = case['eps']
        prog.append(('advance', T - eps))
        prog.append(('stay-open', 2 * K_THREADLESS))
        prog.append(('advance', 2 * eps))
        prog.append(('closes-within', K_THREADLESS))
        counter = {'n': 0}

        def check_eof() -> None:
            main.client.pump()
            if main.client.ended and state['eof_iter'] is None:
                state['eof_iter'] = state['iter']

        def before_iteration(k: int) -> None:
            state['iter'] = k
            if busy.client is not None:
                # a neighbour that has something ready in every single select round
                busy.client.send(b'n')
                busy.oc.send(b'm')
                busy.client.pump()
                busy.oc.pump()
            if state.get('slow_origin') and main.oc is not None:
                main.oc.pump(2048)          # the origin takes two KiB per loop iteration
            if state['pending'] is False:
                check_eof()
            while True:
                if state['pc'] >= len(prog):
                    raise _Done()
                op = prog[state['pc']]
                kind = op[0]
                if kind == 'advance':
                    vc.advance(op[1])
                    state['pc'] += 1
                    continue
                if kind in ('c-send', 'c-more'):
                    counter['n'] += 1
                    data = b'c%06d;' % counter['n'] if kind == 'c-send' else b't: x\r\nX-More: %d\r\n' % counter['n']
                    main.client.send(data)
                    if kind == 'c-send':
                        main.expect_o += data
                        state['await'] = lambda: bytes(main.oc.rx).endswith(data)
                    else:
                        state['await'] = None       # a partial request leaves nothing to observe: fixed settle
                    main.last_io = vc.now
                    state['pc'] += 1
                    continue
                if kind == 'o-send':
                    counter['n'] += 1
                    data = b'o%06d;' % counter['n']
                    main.oc.send(data)
                    main.expect_c += data
                    main.last_io = vc.now       # delivered to the client while the clock stays frozen (settle waits for it)
                    state['await'] = lambda: bytes(main.client.rx).endswith(data)
                    state['pc'] += 1
                    continue
                if kind == 'req':
                    counter['n'] += 1
                    main.client.send(b'GET http://%s/k%d HTTP/1.1\r\nHost: %s\r\n\r\n' % (hp, counter['n'], hp))
                    main.last_io = vc.now
                    state['answer_due'] = True
                    nresp = bytes(main.client.rx).count(b'HTTP/1.1 200 OK') + 1
                    state['await'] = lambda: bytes(main.client.rx).count(b'HTTP/1.1 200 OK') >= nresp and bytes(main.client.rx).endswith(b'ok')
                    state['pc'] += 1
                    continue
                if kind == 'c-upload':
                    if 'upload' not in state:
                        body = G.coded(b'U', op[1])
                        state['upload'] = b'POST http://%s/up HTTP/1.1\r\nHost: %s\r\nContent-Length: %d\r\n\r\n' % (hp, hp, len(body)) + body
                        state['slow_origin'] = True
                    n = main.client.send(state['upload'][:262144])
                    if n > 0:
                        state['upload'] = state['upload'][n:]
                        main.last_io = vc.now
                    if state['upload']:
                        return
                    state['pc'] += 1
                    continue
                if kind == 'settle-upload':
                    # wait until the proxy has taken every byte the client sent (nothing left in the client->proxy socket):
                    # from here on no client-side I/O can happen any more
                    import fcntl, termios, struct
                    def _backlog(w: Any) -> int:
                        return sum(len(bytes(b)) for b in getattr(getattr(w.plugin, 'upstream', None), 'buffer', []) or [])
                    mine = max(rig.work_objs(), key=_backlog, default=None)     # (a busy neighbour may share the worker)
                    pending_in = 0
                    if mine is not None:
                        try:
                            pending_in = struct.unpack('i', fcntl.ioctl(mine.work.connection.fileno(), termios.FIONREAD, b'\0\0\0\0'))[0]
                        except OSError:
                            pass
                    state['wait'] += 1
                    if pending_in > 0 or state['wait'] < 5:
                        if state['wait'] > 20000:
                            state['inconclusive'] = 'upload-never-consumed'
                            raise _Done()
                        return
                    main.last_io = vc.now
                    backlog = _backlog(mine) if mine is not None else 0
                    if backlog <= 0:
                        state['inconclusive'] = 'no-upstream-backlog'
                        raise _Done()
                    obs['upstream_backlog_bytes'] = backlog
                    state['wait'] = 0
                    state['pc'] += 1
                    continue
                if kind == 'o-flood':
                    blob = G.coded(b'P', op[1])
                    main.expect_c += blob
                    state['flood'] = blob
                    state['pending'] = True
                    state['pc'] += 1
                    continue
                if kind == 'c-drain':
                    state['pending'] = 'draining'
                    state['pc'] += 1
                    continue
                if kind == 'settle':
                    # events in flight are handled with the clock frozen
                    if state.get('answer_due') and main.oc is not None:
                        main.oc.pump()
                        if main.oc.rx.endswith(b'\r\n\r\n'):
                            main.oc.send(b'HTTP/1.1 200 OK\r\nContent-Length: 2\r\n\r\nok')
                            main.oc.rx = bytearray()
                            state['answer_due'] = False
                    if state.get('flood'):
                        n = main.oc.send(state['flood'])
                        if n > 0:
                            state['flood'] = state['flood'][n:]
                        if not state['flood']:
                            state['flood'] = None
                        else:
                            state['wait'] = 0       # keep settling until the whole flood is inside the proxy / socket buffers
                            stalled = state.get('flood_stall', 0) + (1 if n <= 0 else 0)
                            state['flood_stall'] = stalled
                            if stalled < 200:
                                return
                    if state['pending'] == 'draining':
                        main.client.pump()
                        main.last_io = vc.now
                        if len(main.client.rx) < len(main.expect_c) and not main.client.ended:
                            if state.get('flood'):
                                pass
                            return
                        state['pending'] = False
                    state['wait'] += 1
                    if main.oc is not None and state['pending'] is False and not state.get('slow_origin'):
                        main.oc.pump()
                    aw = state.get('await')
                    if aw is not None:
                        # the event just caused must have been handled by the proxy before the clock moves again;
                        # kernel delivery takes real time (never assume loopback is instantaneous)
                        if not aw():
                            if state.get('await_since') is None:
                                state['await_since'] = real_time.time()
                            if real_time.time() - state['await_since'] < 5.0:
                                if state['wait'] > 50:
                                    real_time.sleep(0.0005)
                                return
                            state['inconclusive'] = 'event-not-observed-within-5s'
                            raise _Done()
                        state['await'] = None
                        state['await_since'] = None
                        state['wait'] = max(0, op[1] - 3)      # a few more iterations so the flush side settles too
                        return
                    if state['wait'] >= op[1]:
                        state['wait'] = 0
                        state['pc'] += 1
                        continue
                    return
                if kind == 'stay-open':
                    if state['pending'] is False and main.client.ended:
                        bad('closed-early', program_step=state['pc'], op=str(prog[max(0, state['pc'] - 1)]))
                        raise _Done()
                    if state['pending'] and not rig.works:
                        bad('closed-with-output-pending', program_step=state['pc'])
                        raise _Done()
                    state['wait'] += 1
                    if state['wait'] >= op[1]:
                        state['wait'] = 0
                        state['pc'] += 1
                        obs['stay_open_windows'] = obs.get('stay_open_windows', 0) + 1
                        continue
                    return
                if kind == 'closes-within':
                    if main.client.ended:
                        obs['reaped_within_bound'] = 1
                        obs['reap_delay_iterations'] = state['wait']
                        raise _Done()
                    state['wait'] += 1
                    if state['wait'] > op[1]:
                        bad('not-reaped-within-%d-iterations' % op[1], waited=state['wait'])
                        raise _Done()
                    return
                raise AssertionError(kind)
        try:
            rig.run_forever_steps(200000, before_iteration)
        except _Done:
            pass
        except LoopDied as e:
            if not isinstance(e.exc, _Done):
                raise
            rig.dead = None     # the program ended the run from inside the iteration hook; the loop itself is fine
        # conservation on the way (reaping must not eat data)
        if not viol and main.oc is not None:
            main.oc.pump()
            main.client.pump()
            if scen.startswith('tunnel') or scen == 'pending-output':
                if bytes(main.client.rx) != main.expect_c:
                    bad('client-stream-differs', diff=monitors.diff_streams(main.expect_c, bytes(main.client.rx)))
                if bytes(main.oc.rx) != main.expect_o:
                    bad('origin-stream-differs', diff=monitors.diff_streams(main.expect_o, bytes(main.oc.rx)))
        if busy.client is not None and not viol:
            busy.client.pump()
            if busy.client.ended:
                bad('busy-neighbour-was-closed')
            else:
                obs['busy_neighbour_survived'] = 1
    except LoopDied as e:
        if isinstance(e.exc, _Done):
            pass
        else:
            viol.append({'key': '%s|loop-died:%s' % (feat, e.where()), 'detail': {'tb': e.tb[-1200:]}})
    finally:
        rig.close()
        vclock.uninstall()
    obs.update({'scenario:' + scen: 1, 'rig:threadless': 1, 'timeout:%s' % T: 1, 'fractional_timeouts': 1 if T != int(T) else 0, 'is_inactive_evaluations': len(_evals),
                'is_inactive_true': sum(1 for e in _evals if e[0]), 'iterations': state['iter'],
                'busy_neighbour_cases': 1 if case.get('busy_neighbour') else 0,
                'older_busy_neighbour_cases': 1 if case.get('busy_neighbour') == 'older' else 0})
    nontrivial = bool(case['gaps']) or scen in ('pending-output',)
    return {'viol': viol, 'nontrivial': nontrivial, 'inconclusive': state.get('inconclusive'), 'sig': 'tl/%s/%d/%s/%s/%s' % (scen, T, case['eps'], case['gaps'], case.get('busy_neighbour')),
            'obs': obs, 'sets': {'reap_delays': {obs.get('reap_delay_iterations', -1)}},
            'sample': {'case': case, 'program': [str(p)[:40] for p in prog][:30], 'reap_delay_iterations': obs.get('reap_delay_iterations')}}


class TlsClient:
    """A client of the proxy's own TLS front (--key-file/--cert-file) with the read/write interface of rig.peers.Peer."""

    def __init__(self, peer: Any) -> None:
        import ssl
        self.ssl = ssl
        ctx = ssl.SSLContext(ssl.PROTOCOL_TLS_CLIENT)
        ctx.check_hostname = False
        ctx.verify_mode = ssl.CERT_NONE
        peer.sock.setblocking(True)
        peer.sock.settimeout(20)
        self.t = ctx.wrap_socket(peer.sock, server_hostname='front.test')     # the proxy's thread does its side meanwhile
        self.t.setblocking(False)
        self.rx = bytearray()
        self.eof = False
        self.reset = False

    @property
    def ended(self) -> bool:
        return self.eof or self.reset

    def send(self, data: bytes) -> int:
        try:
            return self.t.send(data)
        except (self.ssl.SSLWantWriteError, self.ssl.SSLWantReadError, BlockingIOError):
            return 0
        except OSError:
            self.reset = True
            return -1

    def pump(self, limit: Any = None) -> int:
        got = 0
        while not self.ended and (limit is None or got < limit):
            try:
                d = self.t.recv(65536)
            except (self.ssl.SSLWantReadError, BlockingIOError):
                break
            except (self.ssl.SSLError, OSError):
                self.reset = True
                break
            if not d:
                self.eof = True
                break
            self.rx += d
            got += len(d)
        return got


def run_threaded_pending(case: Dict[str, Any]) -> Dict[str, Any]:
    """Thread-per-connection mode, output pending: the client stops reading while the origin has sent more than the socket
    buffers take, the stall lasts several timeouts, then the origin sends a tail and the client reads again.  The connection
    has undelivered output all along, so the idle reaper must leave it alone: the client receives every byte, tail included."""
    rng = random.Random('c20tp:%s:%s' % (case['seed'], case['i']))
    T = case['timeout']
    vc = vclock.install()
    shim.S.reset()
    del _evals[:]
    tls_front = bool(case.get('tls_front'))
    if tls_front:
        from checks import c10
        key, crt = c10.tls_files()
        flags = flags_T(T, 'c20t:tls', ['--key-file', key, '--cert-file', crt], threaded=True)
    else:
        flags = flags_T(T, 'c20t', threaded=True)
    rig = ThreadRig(flags)
    viol: List[Dict[str, Any]] = []
    obs: Dict[str, int] = {}
    feat = 'pending-output|threaded%s' % ('+tls-front' if tls_front else '')
    inconclusive = None
    try:
        origin = rig.add_origin('127.0.%d.%d' % (rng.randint(0, 250), rng.randint(2, 250)))
        hp = origin.hostport
        client, work, th = rig.add_client('tcp', rcvbuf=65536)
        if tls_front:
            client = TlsClient(client)      # type: ignore[assignment]
            obs['tls_front_pending_cases'] = 1
        client.send(b'CONNECT %s HTTP/1.1\r\nHost: %s\r\n\r\n' % (hp, hp))
        box: Dict[str, Any] = {}

        def acc() -> bool:
            p = origin.accept()
            if p is not None:
                box['oc'] = p
            return 'oc' in box
        if not rig.wait(acc, [client], timeout=15) or not rig.wait(lambda: b'\r\n\r\n' in client.rx, [client], timeout=15):
            inconclusive = 'tunnel-not-established'
            raise TimeoutError()
        oc = box['oc']
        head_len = len(client.rx)
        flood = G.coded(b'P', 8000000 + case.get('flood', 0))
        tail = G.coded(b'T', 18000)
        sent = 0
        stall = 0
        end = real_time.time() + 30
        # the origin pushes until nothing moves any more: kernel buffers full on both legs, the rest sits inside the proxy
        while sent < len(flood) and real_time.time() < end:
            n = oc.send(flood[sent:sent + 262144])
            if n > 0:
                sent += n
                stall = 0
            else:
                stall += 1
                if stall > 150:
                    break
                real_time.sleep(0.002)
        real_time.sleep(0.05)
        n_before = len(_evals)
        vc.advance(T * 3 + 1.0)         # the client has been silent (not reading, not writing) for three timeouts
        end = real_time.time() + 5
        while real_time.time() < end and not any(e[1] > T and e[2] for e in _evals[n_before:]):
            real_time.sleep(0.005)
        seen = [e for e in _evals[n_before:] if e[1] > T and e[2]]
        # the hooked is_inactive() is only where a reaper is EXPECTED to look; one that decides elsewhere is judged by what the
        # peers see all the same: without an observed evaluation a complete delivery proves nothing (inconclusive), but a
        # connection closed with output pending is a violation whoever closed it
        unseen = not seen
        obs['overdue_with_pending_output_evaluations'] = len(seen)
        real_time.sleep(0.1)            # a reaper that (wrongly) fired has left its loop by now
        # the rest of the flood and a tail follow; the client reads again
        want = flood + tail
        rest = want[sent:]
        end = real_time.time() + 60
        while real_time.time() < end and not client.ended:
            if rest:
                n = oc.send(rest[:262144])
                if n > 0:
                    rest = rest[n:]
                elif n < 0:
                    break
            client.pump()
            if len(client.rx) - head_len >= len(want):
                break
            if not rest:
                real_time.sleep(0.001)
        got = bytes(client.rx[head_len:])
        if got == want and unseen:
            inconclusive = 'reaper-never-looked-at-the-stalled-connection'
        elif got == want:
            obs['pending_output_threaded_delivered'] = 1
        elif client.ended or oc.send_error:
            viol.append({'key': '%s|closed-with-output-pending' % feat,
                         'detail': {'timeout': T, 'delivered': len(got), 'owed': len(want), 'in_flight_at_stall': sent,
                                    'client_ended': client.ended, 'origin_send_error': oc.send_error, 'evals_tail': _evals[-3:],
                                    'diff': monitors.diff_streams(want, got)}})
        else:
            inconclusive = 'drain-watchdog'
    except TimeoutError:
        pass
    finally:
        rig.close()
        vclock.uninstall()
    obs.update({'scenario:pending-output': 1, 'rig:threaded': 1, 'timeout:%s' % T: 1, 'fractional_timeouts': 1 if T != int(T) else 0, 'is_inactive_evaluations': len(_evals),
                'is_inactive_true': sum(1 for e in _evals if e[0])})
    return {'viol': viol, 'nontrivial': True, 'inconclusive': inconclusive, 'sig': 'thp/%d/%s' % (T, case.get('flood')), 'obs': obs,
            'sample': {'case': case}}


def run_threaded(case: Dict[str, Any]) -> Dict[str, Any]:
    if case['scenario'] == 'pending-output':
        return run_threaded_pending(case)
    rng = random.Random('c20t:%s:%s' % (case['seed'], case['i']))
    T = case['timeout']
    scen = case['scenario']
    vc = vclock.install()
    shim.S.reset()
    del _evals[:]
    flags = flags_T(T, 'c20t', threaded=True)
    rig = ThreadRig(flags)
    viol: List[Dict[str, Any]] = []
    obs: Dict[str, int] = {}
    feat = '%s|threaded' % scen
    inconclusive = None
    iters = {'n': 0}
    last_io = vc.now

    def bad(kind: str, **d: Any) -> None:
        d.update({'timeout': T, 'scenario': scen, 'gaps': case['gaps'], 'eps': case['eps'], 'idle_now': vc.now - last_io, 'evals_tail': _evals[-3:]})
        viol.append({'key': '%s|%s' % (feat, kind), 'detail': d})
    try:
        origin = rig.add_origin('127.0.%d.%d' % (rng.randint(0, 250), rng.randint(2, 250)))
        hp = origin.hostport
        client, work, th = rig.add_client('tcp')
        real_once = work._run_once

        async def counted() -> bool:
            iters['n'] += 1
            return await real_once()
        work._run_once = counted

        def wait_iters(k: int, timeout: float = 15.0) -> bool:
            """let the handler loop run k more iterations (counted), or end"""
            start = iters['n']
            end = real_time.time() + timeout
            while iters['n'] - start < k and th.is_alive():
                client.pump()
                if real_time.time() > end:
                    return False
                real_time.sleep(0.002)
            return True
        oc = None
        tunnel = scen.startswith('tunnel')
        if scen == 'silent':
            wait_iters(2)
        elif scen == 'partial-request':
            client.send(b'GET http://%s/x HTTP/1.1\r\nHos' % hp)
            wait_iters(3)
        else:
            client.send((b'CONNECT %s HTTP/1.1\r\nHost: %s\r\n\r\n' % (hp, hp)) if tunnel else
                        (b'GET http://%s/x HTTP/1.1\r\nHost: %s\r\n%s\r\n' % (hp, hp, EXTRA_HEADERS[case.get('req_headers', 'none')])))
            box: Dict[str, Any] = {}

            def acc() -> bool:
                p = origin.accept()
                if p is not None:
                    box['oc'] = p
                return 'oc' in box
            if not rig.wait(acc, [client], timeout=15):
                inconclusive = 'origin-never-connected'
                raise TimeoutError()
            oc = box['oc']
            if tunnel:
                rig.wait(lambda: b'\r\n\r\n' in client.rx, [client, oc], timeout=15)
            else:
                rig.wait(lambda: b'\r\n\r\n' in oc.rx, [client, oc], timeout=15)
                oc.send(b'HTTP/1.1 200 OK\r\nContent-Length: 2\r\n\r\nok')
                rig.wait(lambda: client.rx.endswith(b'ok'), [client, oc], timeout=15)
            wait_iters(3)
        last_io = vc.now
        n = 0
        acts = {'tunnel-c2o': ['c-send'], 'tunnel-o2c': ['o-send'], 'tunnel-both': ['c-send', 'o-send'], 'http-keepalive': ['req'],
                'partial-request': ['c-more']}.get(scen, [])
        for g in (case['gaps'] if acts else []):
            vc.advance(g * T)
            if not wait_iters(K_THREADED):
                inconclusive = 'handler-iterations-watchdog'
                break
            if client.ended or not th.is_alive():
                bad('closed-early', after_gap=g)
                break
            obs['stay_open_windows'] = obs.get('stay_open_windows', 0) + 1
            if acts:
                a = rng.choice(acts)
                n += 1
                if a == 'c-more':
                    client.send(b't: x\r\nX-More: %d\r\n' % n)
                    wait_iters(4)
                elif a == 'c-send':
                    client.send(b'c%06d;' % n)
                    rig.wait(lambda: oc.rx.endswith(b'c%06d;' % n), [oc, client], timeout=15)
                elif a == 'o-send':
                    oc.send(b'o%06d;' % n)
                    rig.wait(lambda: client.rx.endswith(b'o%06d;' % n), [oc, client], timeout=15)
                else:
                    client.send(b'GET http://%s/k%d HTTP/1.1\r\nHost: %s\r\n\r\n' % (hp, n, hp))
                    rig.wait(lambda: oc.rx.endswith(b'\r\n\r\n') and b'/k%d ' % n in oc.rx, [oc, client], timeout=15)
                    before = len(client.rx)
                    oc.send(b'HTTP/1.1 200 OK\r\nContent-Length: 2\r\n\r\nok')
                    rig.wait(lambda: len(client.rx) >= before + 40, [oc, client], timeout=15)
                last_io = vc.now
                wait_iters(2)
        if not viol and not inconclusive:
            eps = case['eps']
            vc.advance(T - eps)
            if not wait_iters(K_THREADED + 4):
                inconclusive = 'handler-iterations-watchdog'
            elif client.ended or not th.is_alive():
                bad('closed-early', final=True)
            else:
                obs['stay_open_windows'] = obs.get('stay_open_windows', 0) + 1
                vc.advance(2 * eps)
                start = iters['n']
                end = real_time.time() + 15
                while th.is_alive() and iters['n'] - start <= K_THREADED and real_time.time() < end:
                    client.pump()
                    real_time.sleep(0.002)
                client.pump()
                if th.is_alive() and iters['n'] - start > K_THREADED:
                    bad('not-reaped-within-%d-handler-iterations' % K_THREADED, waited=iters['n'] - start)
                elif th.is_alive():
                    inconclusive = 'handler-iterations-watchdog'
                else:
                    rig.wait(lambda: client.ended, [client], timeout=5)
                    if not client.ended:
                        bad('handler-exited-without-closing-client')
                    else:
                        obs['reaped_within_bound'] = 1
    except TimeoutError:
        pass
    finally:
        rig.close()
        vclock.uninstall()
    obs.update({'scenario:' + scen: 1, 'rig:threaded': 1, 'timeout:%s' % T: 1, 'fractional_timeouts': 1 if T != int(T) else 0, 'is_inactive_evaluations': len(_evals),
                'is_inactive_true': sum(1 for e in _evals if e[0])})
    return {'viol': viol, 'nontrivial': bool(case['gaps']), 'inconclusive': inconclusive,
            'sig': 'th/%s/%d/%s/%s' % (scen, T, case['eps'], case['gaps']), 'obs': obs,
            'sample': {'case': case, 'handler_iterations': iters['n']}}


# what the first request of a plain-HTTP conversation may carry besides Host: nothing of it exempts the connection from reaping
EXTRA_HEADERS = {'none': b'', 'keep-alive': b'Connection: keep-alive\r\nKeep-Alive: timeout=600\r\n',
                 'upgrade-h2c': b'Connection: Upgrade, HTTP2-Settings\r\nUpgrade: h2c\r\nHTTP2-Settings: AAMAAABkAAQAAP__\r\n',
                 'upgrade-ws': b'Connection: Upgrade\r\nUpgrade: websocket\r\nSec-WebSocket-Key: dGhlIHNhbXBsZSBub25jZQ==\r\nSec-WebSocket-Version: 13\r\n',
                 'expect': b'Expect: 100-continue\r\n', 'te': b'TE: trailers\r\nConnection: TE\r\n'}
SCEN = ['silent', 'partial-request', 'http-keepalive', 'tunnel-c2o', 'tunnel-o2c', 'tunnel-both', 'pending-output', 'upstream-drain']


def cases(tier: str, seed: int):
    rng = random.Random('c20cases:%d' % seed)
    n = 420 if tier == 'quick' else 6000
    for i in range(n):
        scen = SCEN[i % len(SCEN)]
        rigk = 'thread' if (i // len(SCEN)) % 4 == 3 and scen != 'upstream-drain' else 'step'
        T = rng.choice([1, 1, 5, 10, 3600, 1.9, 2.5, 0.9])
        ngaps = rng.choice([0, 1, 2, 4]) if scen not in ('silent',) else 0
        gaps = [round(rng.choice([0.1, 0.5, 0.9, 0.99, 0.999]), 3) for _ in range(ngaps)]
        yield {'seed': seed, 'i': i, 'scenario': scen, 'rig': rigk, 'timeout': T, 'gaps': gaps, 'eps': rng.choice([0.001, 0.5]),
               'busy_neighbour': (rng.choice(['older', 'younger']) if rigk == 'step' and rng.random() < 0.4 and scen != 'pending-output' else False),
               'flood': rng.choice([600000, 3000000]), 'req_headers': rng.choice(sorted(EXTRA_HEADERS)), 'tls_front': (i // len(SCEN)) % 8 == 3}


def floors(tier: str) -> Dict[str, int]:
    fl = {'fractional_timeouts': 60, 'reaped_within_bound': 250, 'stay_open_windows': 600, 'rig:threaded': 50, 'rig:threadless': 250, 'is_inactive_evaluations': 3000,
          'busy_neighbour_survived': 40, 'older_busy_neighbour_cases': 15, 'pending_output_threaded_delivered': 8, 'tls_front_pending_cases': 4}
    for s in SCEN:
        fl['scenario:' + s] = 30
    return fl


if __name__ == '__main__':
    raise SystemExit(driver.main(__import__('checks.c20', fromlist=['x'])))

"""C10 — every connection's resources are released exactly once, however it ends.

One connection history at a time is run to its end on the real executor (step rig, local and remote; thread
rig for the thread-per-connection path): every prefix of each role script followed by client close / reset /
half-close, misbehaving upstreams (refusal, resolution failure, close / reset at every stage, garbage),
client abort with queued output, errno injection at every I/O call, reverse-proxy connections that switch
upstreams, and idle-timeout endings (virtual clock + the product's own reaper cadence).
Observed at quiescence, after the harness has closed its own ends:
  * descriptor ledger: /proc/self/fd now vs the post-warm-up baseline, minus harness-owned descriptors;
  * the executor's registries: works, registered_events_by_work_ids, selector map, unfinished tasks;
  * os.close() calls made by proxy code on descriptors that are not open (double release);
  * harness-owned descriptors still valid (nobody closed a recycled number under our feet);
  * repeating the same history N times leaves the descriptor count unchanged.
"""
import os
import gc
import random
import warnings
from typing import Any, Dict, List, Optional, Tuple

from rig import env, driver, shim, monitors, conv, resolver, adversary, vclock, gen_http as G

env.quiet_logging()

from rig.steprig import StepRig, make_flags, LoopDied      # noqa: E402
from rig.threadrig import ThreadRig                         # noqa: E402
from rig.peers import open_fds                              # noqa: E402
from proxy.http.proxy import HttpProxyBasePlugin          # noqa: E402
from checks import c04, c06                                 # noqa: E402

PROPERTY = 'C10'
LEVEL = 'fault_enumeration'
LEVEL_TEXT = ('Fault enumeration: histories = {every prefix of 5 role scripts x {close, reset, half-close}; 10 upstream '
              'misbehaviours x roles; client abort with megabytes queued; upstream that never reads; reverse-proxy upstream '
              'switching; every (call kind, index, errno) of the fault-free runs; c06 byte strings; idle-timeout endings} on '
              'the local and remote executors and the thread-per-connection handler, each run once and repeated N times. '
              'Judged by a descriptor ledger (/proc/self/fd), the executor registries, and an os.close monitor.')
LEVEL_NOTE = ('Trusted: /proc/self/fd as ground truth for open descriptors; the baseline is taken after the executor warmed up '
              '(asyncio creates its self-pipe lazily). Sockets only reclaimed by the garbage collector are counted '
              'separately (ResourceWarning), not as leaks. A third of the step-rig histories run with --enable-conn-pool (the pool is bookkeeping too).')
TECHNIQUE = 'runtime monitoring with fault injection: descriptor ledger + executor-registry invariants at quiescence + os.close monitor, single and repeated histories'
RULE = ('case = (history, executor mode, repetitions); non-trivial = an upstream socket existed when the history was cut short, '
        'or a fault was actually injected; distinct = history signature x mode')
ASSUMPTIONS = ['the harness closes its own ends before the ledger is read', 'with --enable-conn-pool a listed pool connection may stay open between histories; only closed ones still listed, and growth under repetition, are judged']
SHARDS = {'quick': 8, 'thorough': 16}
BUDGET_S = {'quick': 45, 'thorough': 800}

_bad_closes: List[Tuple[int, str]] = []
_real_os_close = os.close


def _watched_os_close(fd: int) -> None:
    if shim.active():
        try:
            os.fstat(fd)
        except OSError:
            _bad_closes.append((fd, 'os.close on a descriptor that is not open'))
    return _real_os_close(fd)


os.close = _watched_os_close        # type: ignore[assignment]   (monitor: passes every call through)


class LogTaker(HttpProxyBasePlugin):
    """A plugin that takes over access logging the documented way: on_access_log() returns None."""

    def on_access_log(self, context: Dict[str, Any]) -> Optional[Dict[str, Any]]:
        return None


def flags_all(timeout: Optional[int] = None, threaded: bool = False, pool: bool = False, logtaker: bool = False) -> Any:
    args = ['--enable-web-server', '--enable-reverse-proxy'] + (['--timeout', str(timeout)] if timeout else []) + (['--enable-conn-pool'] if pool else [])
    return make_flags(args, plugins=[c04.RouteA, c04.RouteB, c04.Rev] + ([LogTaker] if logtaker else []),
                      cache_key='c10:%s:%s:%s:%s' % (timeout, threaded, pool, logtaker), threaded=threaded)


def run_history(rig: StepRig, adv: Dict[str, Any], rng: random.Random, case: Dict[str, Any]) -> Dict[str, Any]:
    """Runs one adversarial connection to its end and closes the harness side.  Returns observations."""
    c04._routes.update({'A': None, 'B': None, 'A2': None})
    resolver.reset({})
    holes = [os.open('/dev/null', os.O_RDONLY) for _ in range(adv.get('holes', 0))]
    A = adversary.Adversary(rig, adv, rng, case, c04._routes,
                            make_bytes=(lambda hp_: c06.make_input(random.Random('c10b:%s:%s' % (case['seed'], case['i'])), adv['c06'], hp_))
                            if adv['class'] == 'bytes' else None, holes=holes)
    had_upstream = False
    guard = 0
    try:
        while guard < 4000:
            guard += 1
            a = rng.choice(['P', 'P', 'A'])
            if a == 'P':
                rig.step()
                for w in rig.work_objs():
                    up = getattr(getattr(w, 'plugin', None), 'upstream', None)
                    if up is None:
                        up = getattr(getattr(getattr(w, 'plugin', None), 'route', None), 'upstream', None)
                    if up is not None and not up.closed:
                        had_upstream = True
            else:
                A.act()
            if A.ended and A.upstream_settled and guard > 30:
                break
        # the history is over: the harness lets go of everything it holds for it
        for _ in range(10):
            rig.step()
            A.act()
        fired = shim.S.fault_fired
        shim.S.fault = None
        if adv.get('ending') == 'silence' or (adv['class'] == 'reverse-switch' and adv.get('ending') != 'close'):
            A.client.close()
        A.harness_close()
        rig.settle([], quiet=8, max_iter=400)
    finally:
        shim.S.fault_filter = None
        shim.S.fault = None
        while holes:
            os.close(holes.pop())
    return {'had_upstream': had_upstream, 'fault_fired': fired}


def ledger(rig: StepRig) -> Dict[str, Any]:
    st = rig.registry_state()
    leaked = rig.leaked_fds()
    problems = []
    if leaked:
        problems.append(('descriptors-left-open', {str(k): v for k, v in leaked.items()}))
    if st['works']:
        problems.append(('work-still-registered', st['works']))
    if st['registered']:
        problems.append(('events-still-registered', {str(k): v for k, v in st['registered'].items()}))
    if st['selector_fds']:
        problems.append(('selector-still-watching-descriptors', st['selector_fds']))
    if st['unfinished']:
        problems.append(('unfinished-tasks-remain', st['unfinished']))
    pool = getattr(rig.ex, '_upstream_conn_pool', None)
    if pool is not None:
        # --enable-conn-pool: the worker-wide pool is bookkeeping too.  A connection it still lists must be alive; one that
        # has been closed (descriptor gone) is a stale entry.
        listed = list(pool.connections.values()) + [c for group in pool.pools.values() for c in group]
        dead = [repr(c.addr) for c in listed if c.closed or c.connection.fileno() < 0]
        if dead:
            problems.append(('closed-connection-still-listed-in-upstream-pool', sorted(set(dead))))
        st['pool_size'] = len(pool.connections) + sum(len(g) for g in pool.pools.values())
    for p in rig.peers:
        if not p.closed:
            try:
                os.fstat(p.sock.fileno())
            except OSError:
                problems.append(('harness-descriptor-was-closed-by-someone-else', p.name))
    return {'problems': problems, 'state': st}


_tls: Dict[str, str] = {}


def tls_files() -> Tuple[str, str]:
    """A self-signed certificate for the proxy's own TLS front (--key-file/--cert-file), made once per process with openssl."""
    if not _tls:
        import subprocess
        d = env.workdir('c10', str(os.getpid()))
        key, crt = os.path.join(d, 'front.key'), os.path.join(d, 'front.crt')
        subprocess.run(['openssl', 'req', '-x509', '-newkey', 'rsa:2048', '-nodes', '-keyout', key, '-out', crt, '-days', '2',
                        '-subj', '/CN=front.test'], check=True, capture_output=True, timeout=60)
        _tls.update({'key': key, 'crt': crt, 'dir': d})
    return _tls['key'], _tls['crt']


def end() -> None:
    if _tls.get('dir'):
        import shutil
        shutil.rmtree(_tls['dir'], ignore_errors=True)


def run_tls_front(case: Dict[str, Any]) -> Dict[str, Any]:
    """Proxy with its own TLS front: connections whose handshake fails while the work is being initialised
    (plain HTTP or garbage sent to the TLS port, truncated ClientHello + close) must be released like any other."""
    import socket as _socket
    rng = random.Random('c10tls:%s:%s' % (case['seed'], case['i']))
    adv = case['adv']
    mode = case.get('mode', 'local')
    shim.S.reset()
    del _bad_closes[:]
    key, crt = tls_files()
    flags = make_flags(['--key-file', key, '--cert-file', crt], cache_key='c10:tls')
    rig = StepRig(flags, mode)
    viol: List[Dict[str, Any]] = []
    obs: Dict[str, int] = {}
    feat = 'tls-front|%s|%s' % (adv['hello'], mode)
    try:
        counts = []
        for rep in range(case.get('reps', 1)):
            a, b = _socket.socketpair(_socket.AF_UNIX, _socket.SOCK_STREAM) if case.get('transport') == 'unix' else (None, None)
            if a is None:
                ls = _socket.socket(_socket.AF_INET, _socket.SOCK_STREAM)
                ls.bind(('127.0.0.1', 0))
                ls.listen(1)
                a = _socket.socket(_socket.AF_INET, _socket.SOCK_STREAM)
                shim._orig_connect(a, ls.getsockname())
                b, addr = ls.accept()
                ls.close()
            else:
                addr = None
            hello = {'plain-http': b'GET / HTTP/1.1\r\nHost: x\r\n\r\n', 'garbage': bytes(rng.getrandbits(8) for _ in range(200)),
                     'truncated-hello': b'\x16\x03\x01\x02\x00\x01\x00\x01\xfc\x03\x03' + b'\x00' * 20}[adv['hello']]
            from rig.peers import Peer
            peer = Peer(a, 'tlsclient')
            rig.peers.append(peer)
            peer.send(hello)
            if adv['hello'] == 'truncated-hello':
                peer.close()        # the handshake meets end-of-stream instead of blocking for the rest
            rig.hand_over(b, addr)
            if mode == 'local':
                del b
            rig.settle([peer] if not peer.closed else [], quiet=6, max_iter=300)
            if not peer.closed:
                peer.close()
            rig.settle([], quiet=4, max_iter=100)
            gc.collect()
            led = ledger(rig)
            counts.append(len(open_fds()))
            for (what, d) in led['problems']:
                viol.append({'key': '%s|%s' % (feat, what), 'detail': {'adversary': adv, 'repetition': rep, 'what': d}})
            if viol:
                break
            rig.peers[:] = []
        if _bad_closes:
            viol.append({'key': feat + '|double-release', 'detail': {'closes': _bad_closes[:5]}})
        if len(counts) > 1 and counts[-1] > counts[0] and not viol:
            viol.append({'key': feat + '|descriptor-count-grows-under-repetition', 'detail': {'counts': counts}})
        obs['tls_front_histories'] = 1
    except LoopDied as e:
        if e.where() == 'STALL@wrap_socket' and adv['hello'] == 'garbage' and _reads_as_long_record(hello):
            # not garbage to OpenSSL: the first bytes announce a record longer than what was sent, the (blocking) handshake waits
            # for the rest - the mechanism of the C05 known finding, keyed by mechanism, not by the bytes that happened to do it
            viol.append({'key': 'tls-front|incomplete-record-then-silence|loop-died:STALL@wrap_socket',
                         'detail': {'adversary': adv, 'first_bytes': hello[:8].hex(), 'mode': mode, 'tb': e.tb[-600:]}})
        else:
            viol.append({'key': '%s|loop-died:%s' % (feat, e.where()), 'detail': {'adversary': adv, 'tb': e.tb[-1200:]}})
    finally:
        rig.close()
    obs.update({'class:tls-front': 1, 'mode:' + mode: 1, 'histories_with_clean_ledger': 0 if viol else 1})
    return {'viol': viol[:3], 'nontrivial': True, 'sig': 'tls/%s/%s/%s' % (adv['hello'], mode, case.get('reps')), 'obs': obs, 'sample': {'case': case}}


def _reads_as_long_record(first: bytes) -> bool:
    """True when the bytes start like a TLS record (any type, version 3.x) or an SSLv2 ClientHello whose announced length exceeds
    what was sent - input OpenSSL does not reject but waits on."""
    if len(first) < 5:
        return True
    if first[1] == 0x03:
        # record header: type (not looked at before the whole record is in), version major 3, 16-bit length
        return int.from_bytes(first[3:5], 'big') + 5 > len(first)
    if first[0] & 0x80 and first[2] == 0x01:
        return (((first[0] & 0x7f) << 8) | first[1]) + 2 > len(first)
    return False


def run_case(case: Dict[str, Any]) -> Dict[str, Any]:
    if case['adv']['class'] == 'tls-front':
        return run_tls_front(case)
    if case.get('rig') == 'thread':
        return run_threaded(case)
    if case['adv']['class'] == 'idle-timeout':
        return run_idle(case)
    rng = random.Random('c10:%s:%s' % (case['seed'], case['i']))
    mode = case.get('mode', 'local')
    adv = case['adv']
    shim.S.reset()
    del _bad_closes[:]
    texc = monitors.watch_task_exceptions()
    rig = StepRig(flags_all(pool=bool(case.get('pool')), logtaker=bool(case.get('logtaker'))), mode)
    viol: List[Dict[str, Any]] = []
    obs: Dict[str, int] = {}
    feat = '%s|%s|%s%s' % (adv['class'], adv.get('role', adv.get('kind', '-')), adv.get('upstream', adv.get('ending', '-')), '|conn-pool' if case.get('pool') else '')
    reps = case.get('reps', 1)
    info: Dict[str, Any] = {}
    rw = 0
    try:
        counts = []
        pool_sizes: List[int] = []
        with warnings.catch_warnings(record=True) as wlist:
            warnings.simplefilter('always', ResourceWarning)
            for rep in range(reps):
                info = run_history(rig, adv, random.Random('c10r:%s:%s:%d' % (case['seed'], case['i'], rep)), case)
                # harness sockets of this repetition are closed; drop them from the rig's books so that they are not "owned" any more
                gc.collect()
                led = ledger(rig)
                counts.append(len(open_fds()))
                pool_sizes.append(led['state'].get('pool_size', 0))
                if led['problems']:
                    for (what, d) in led['problems']:
                        viol.append({'key': '%s|%s' % (feat, what), 'detail': {'adversary': adv, 'mode': mode, 'repetition': rep, 'what': d,
                                                                              'task_exceptions': sorted({x[0] for x in texc})}})
                    break
                for o in rig.origins:
                    o.close()
                rig.origins[:] = []
                rig.peers[:] = [p for p in rig.peers if not p.closed]
            rw = sum(1 for w in wlist if issubclass(w.category, ResourceWarning))
        if _bad_closes:
            viol.append({'key': '%s|double-release' % feat, 'detail': {'adversary': adv, 'mode': mode, 'closes': _bad_closes[:5]}})
        if reps > 1 and not viol:
            obs['repeated_histories'] = 1
            obs['repetitions'] = reps
            # descriptor count after each repetition must not grow (harness origins are closed after each repetition)
            if counts[-1] > counts[0]:
                viol.append({'key': '%s|descriptor-count-grows-under-repetition' % feat, 'detail': {'adversary': adv, 'mode': mode, 'counts': counts}})
            if pool_sizes and pool_sizes[-1] > pool_sizes[0]:
                viol.append({'key': '%s|upstream-pool-grows-under-repetition' % feat, 'detail': {'adversary': adv, 'mode': mode, 'sizes': pool_sizes}})
    except LoopDied as e:
        viol.append({'key': '%s|loop-died:%s' % (feat, e.where()), 'detail': {'adversary': adv, 'tb': e.tb[-1200:]}})
    finally:
        rig.close()
    obs.update({'class:' + adv['class']: 1, 'mode:' + mode: 1, 'had_upstream_at_end': 1 if info.get('had_upstream') else 0,
                'faults_fired': info.get('fault_fired', 0), 'resource_warnings': rw, 'ending:' + str(adv.get('ending')): 1,
                'histories_with_clean_ledger': 0 if viol else 1, 'conn_pool_histories': 1 if case.get('pool') else 0})
    return {'viol': viol[:3], 'nontrivial': bool(info.get('had_upstream') or info.get('fault_fired')),
            'sig': '%s/%s/%s/%d' % (feat, sorted((k, str(v)) for k, v in adv.items()), mode, reps), 'obs': obs,
            'sample': {'case': case}}


def run_idle(case: Dict[str, Any]) -> Dict[str, Any]:
    """History ended by the idle reaper (virtual clock, the product's own _run_forever cadence)."""
    rng = random.Random('c10i:%s:%s' % (case['seed'], case['i']))
    adv = case['adv']
    shim.S.reset()
    del _bad_closes[:]
    vc = vclock.install()
    T = 5
    rig = StepRig(flags_all(timeout=T), 'local')
    viol: List[Dict[str, Any]] = []
    obs: Dict[str, int] = {}
    feat = 'idle-timeout|%s|reaped' % adv['role']
    try:
        c04._routes.update({'A': None, 'B': None, 'A2': None})
        origin = rig.add_origin('127.0.%d.%d' % (rng.randint(0, 250), rng.randint(2, 250)))
        hp = origin.hostport
        if adv['role'] == 'reverse':
            c04._routes['A'] = b'http://%s/pa' % hp
        client = rig.add_client('unix')
        data = adversary.adversary_script(adv['role'], hp)
        data = data[:adv.get('prefix', len(data)) % (len(data) + 1)]
        client.send(data)
        oc: Any = None
        for _ in range(60):
            rig.step()
            if oc is None:
                oc = origin.accept()
            if oc is not None:
                oc.pump()
                if adv.get('answer') and oc.rx and not getattr(oc, '_answered', False):
                    oc.send(b'HTTP/1.1 200 OK\r\nContent-Length: 2\r\n\r\nok')
                    oc._answered = True
            client.pump()
        vc.advance(T + 1)
        state = {'n': 0}

        def before(k: int) -> None:
            state['n'] = k
            client.pump()
        rig.run_forever_steps(120, before)
        client.pump()
        if not client.ended:
            viol.append({'key': feat + '|not-reaped', 'detail': {'adversary': adv}})
        client.close()
        if oc is not None:
            oc.close()
        rig.settle([], quiet=6, max_iter=200)
        gc.collect()
        led = ledger(rig)
        for (what, d) in led['problems']:
            viol.append({'key': '%s|%s' % (feat, what), 'detail': {'adversary': adv, 'what': d}})
        if _bad_closes:
            viol.append({'key': feat + '|double-release', 'detail': {'closes': _bad_closes[:5]}})
        obs['idle_endings'] = 1
    except LoopDied as e:
        viol.append({'key': '%s|loop-died:%s' % (feat, e.where()), 'detail': {'adversary': adv, 'tb': e.tb[-1200:]}})
    finally:
        rig.close()
        vclock.uninstall()
    obs.update({'class:idle-timeout': 1, 'mode:local': 1, 'histories_with_clean_ledger': 0 if viol else 1})
    return {'viol': viol[:3], 'nontrivial': True, 'sig': 'idle/%s/%s' % (adv['role'], adv.get('prefix')), 'obs': obs, 'sample': {'case': case}}


def run_threaded(case: Dict[str, Any]) -> Dict[str, Any]:
    """Thread-per-connection path: after the handler thread exited, the process holds no descriptor of the connection."""
    rng = random.Random('c10t:%s:%s' % (case['seed'], case['i']))
    adv = case['adv']
    shim.S.reset()
    del _bad_closes[:]
    flags = flags_all(threaded=True)
    viol: List[Dict[str, Any]] = []
    obs: Dict[str, int] = {}
    feat = 'threaded|%s|%s' % (adv.get('role'), adv.get('ending'))
    inconclusive = None
    import time as _t
    # selectors / event loops are created per handler thread and released with it: baseline before anything starts
    gc.collect()
    base = set(open_fds())
    rig = ThreadRig(flags)
    try:
        c04._routes.update({'A': None, 'B': None, 'A2': None})
        behaviour = adv.get('upstream', 'ok')
        origin = None
        if behaviour == 'refuse':
            from rig.peers import refused_port
            hp = b'127.0.0.1:%d' % refused_port('127.0.0.1')
        else:
            origin = rig.add_origin('127.0.%d.%d' % (rng.randint(0, 250), rng.randint(2, 250)))
            hp = origin.hostport
        if adv['role'] == 'reverse':
            c04._routes['A'] = b'http://%s/pa' % hp
        client, work, th = rig.add_client('tcp')
        data = adversary.adversary_script(adv['role'], hp)
        data = data[:adv.get('prefix', len(data)) % (len(data) + 1)]
        client.send(data)
        oc: Any = None
        end = _t.time() + 1.0
        while _t.time() < end and th.is_alive():
            if origin is not None and oc is None:
                oc = origin.accept()
            if oc is not None:
                oc.pump()
                if oc.rx and not getattr(oc, '_answered', False):
                    if behaviour == 'reset-mid-body':
                        oc.send(b'HTTP/1.1 200 OK\r\nContent-Length: 1000\r\n\r\npart')
                        oc.reset_close()
                    elif behaviour == 'close-mid-body':
                        oc.send(b'HTTP/1.1 200 OK\r\nContent-Length: 1000\r\n\r\npart')
                        oc.close()
                    else:
                        oc.send(b'HTTP/1.1 200 OK\r\nContent-Length: 2\r\n\r\nok')
                    oc._answered = True
                    break
            client.pump()
            _t.sleep(0.002)
        _t.sleep(0.02)
        client.pump()
        ending = adv.get('ending', 'close')
        if ending == 'reset':
            client.reset_close()
        else:
            client.close()
        if oc is not None and not oc.closed:
            oc.close()
        th.join(15)
        if th.is_alive():
            inconclusive = 'handler-thread-watchdog'
        alive = rig.close()
        gc.collect()
        now = open_fds()
        extra = {fd: t for fd, t in now.items() if fd not in base and not t.startswith('/proc/')}
        if extra and not inconclusive:
            viol.append({'key': feat + '|descriptors-left-open-after-handler-thread-exit', 'detail': {'adversary': adv, 'fds': {str(k): v for k, v in extra.items()}}})
        if _bad_closes:
            viol.append({'key': feat + '|double-release', 'detail': {'closes': _bad_closes[:5]}})
        obs['threaded_histories'] = 1
    finally:
        shim.S.all_threads_active = False
    obs.update({'class:threaded': 1, 'mode:thread': 1, 'histories_with_clean_ledger': 0 if viol else 1})
    return {'viol': viol, 'nontrivial': True, 'inconclusive': inconclusive, 'sig': 'th/%s' % sorted(adv.items()), 'obs': obs, 'sample': {'case': case}}


def cases(tier: str, seed: int):
    rng = random.Random('c10cases:%d' % seed)
    i = 0

    def mk(adv: Dict[str, Any], **kw: Any) -> Dict[str, Any]:
        nonlocal i
        i += 1
        d = {'seed': seed, 'i': i, 'adv': adv, 'mode': 'remote' if i % 3 == 0 else 'local', 'reps': 1}
        d.update(kw)
        if adv.get('class') in ('prefix', 'upstream', 'client-abort-with-queued-output', 'upstream-never-reads') and adv.get('role') in ('forward', 'forward-post', 'tunnel') and i % 3 == 1:
            d['pool'] = True
            d['reps'] = max(d['reps'], 3)
        if i % 2 == 0:
            d['logtaker'] = True        # a user plugin that handles the access log itself
        return d
    step = 3 if tier == 'quick' else 1
    for role in adversary.ROLE_SCRIPTS:
        n = len(adversary.adversary_script(role, b'127.0.100.100:50000'))
        for pos in range(0, n + 1, step):
            for ending in (['close', 'reset', 'half-close'] if tier != 'quick' else [['close', 'reset', 'half-close'][pos % 3]]):
                yield mk({'class': 'prefix', 'role': role, 'prefix': pos, 'ending': ending, 'ncuts': rng.choice([0, 1, 3]), 'linger': rng.choice([1, 3, 12])})
    for rep in range(3 if tier == 'quick' else 30):
        for role in ('forward', 'forward-post', 'tunnel', 'reverse'):
            for ub in adversary.UPSTREAM_BEHAVIOURS:
                yield mk({'class': 'upstream', 'role': role, 'upstream': ub, 'ending': rng.choice(['close', 'reset', 'silence']),
                          'linger': rng.choice([3, 30]), 'resp_size': rng.choice([3000, 200000])})
    for rep in range(4 if tier == 'quick' else 40):
        for role in ('forward', 'tunnel', 'reverse'):
            for ending in ('close', 'reset', 'half-close'):
                yield mk({'class': 'client-abort-with-queued-output', 'role': role, 'ending': ending, 'resp_size': rng.choice([300000, 2000000]),
                          'never_reads': rng.random() < 0.5, 'slow_reader': True, 'linger': rng.choice([1, 5, 40])})
    for rep in range(2 if tier == 'quick' else 20):
        for role in ('forward', 'tunnel', 'reverse'):
            yield mk({'class': 'upstream-never-reads', 'role': role, 'upload': 3000000, 'ending': rng.choice(['close', 'reset']), 'ncuts': 40, 'linger': 20})
    for rep in range(60 if tier == 'quick' else 600):
        yield mk({'class': 'reverse-switch', 'role': 'reverse', 'requests': rng.choice([3, 6, 12]), 'ending': rng.choice(['silence', 'close']),
                  'holes': rng.choice([0, 1, 3, 5])})
    for k in range(300 if tier == 'quick' else 6000):
        kind = rng.choice(['random', 'mutate', 'insert', 'delete', 'special', 'nonutf8', 'concat'])
        c = {'kind': kind, 'base': rng.choice(c06.BASES), 'pos': rng.randrange(400), 'byte': rng.choice(c06.BYTES), 'n': rng.choice([1, 2, 5]),
             'idx': rng.randrange(len(c06.SPECIALS)), 'field': rng.choice(['method', 'host', 'path', 'version', 'header-name', 'header-value', 'connect-host', 'web-path', 'web-ua', 'body']),
             'names': rng.choice([['get', 'get'], ['web', 'web'], ['post', 'get'], ['connect', 'get'], ['chunked', 'chunked']])}
        yield mk({'class': 'bytes', 'kind': kind, 'c06': c, 'ending': rng.choice(['close', 'reset']), 'ncuts': rng.choice([0, 2, 9])})
    bounds = {'forward': (6, 4, 1), 'forward-post': (6, 4, 1), 'tunnel': (8, 5, 1), 'web': (4, 3, 0), 'reverse': (7, 5, 1)}
    for role, (nr, ns, nc) in bounds.items():
        for kind, cnt in (('recv', nr), ('send', ns), ('connect', nc)):
            for idx in range(cnt):
                for en in adversary.ERRNOS[kind]:
                    yield mk({'class': 'fault', 'role': role, 'kind': kind, 'index': idx, 'errno': en, 'ending': 'close', 'linger': 40,
                              'resp_size': rng.choice([3000, 150000])})
    # idle-timeout endings
    for role in adversary.ROLE_SCRIPTS:
        n = len(adversary.adversary_script(role, b'127.0.100.100:50000'))
        for pos in sorted({0, 5, n // 2, n - 1, n}):
            for answer in (False, True):
                yield mk({'class': 'idle-timeout', 'role': role, 'prefix': pos, 'answer': answer})
    # repetition: the same history many times on one executor
    N = 30 if tier == 'quick' else 300
    for role in adversary.ROLE_SCRIPTS:
        for ending in ('close', 'reset'):
            yield mk({'class': 'prefix', 'role': role, 'prefix': 10 ** 6, 'ending': ending, 'ncuts': 1}, reps=N)
        yield mk({'class': 'upstream', 'role': role, 'upstream': rng.choice(['refuse', 'reset-mid-body', 'close-on-accept']), 'ending': 'close'}, reps=N)
    yield mk({'class': 'reverse-switch', 'role': 'reverse', 'requests': 6, 'ending': 'close', 'holes': 2}, reps=N)
    # the proxy's own TLS front: handshakes that fail during work initialisation
    for rep in range(3 if tier == 'quick' else 20):
        for hello in ('plain-http', 'garbage', 'truncated-hello'):
            for mode in ('local', 'remote'):
                yield mk({'class': 'tls-front', 'hello': hello}, mode=mode, reps=1 if rep else 12, transport=rng.choice(['unix', 'tcp']))
    # thread-per-connection
    for rep in range(2 if tier == 'quick' else 20):
        for role in adversary.ROLE_SCRIPTS:
            n = len(adversary.adversary_script(role, b'127.0.100.100:50000'))
            for pos in (n // 3, n):
                for ending in ('close', 'reset'):
                    yield mk({'class': 'threaded', 'role': role, 'prefix': pos, 'ending': ending,
                              'upstream': rng.choice(['ok', 'ok', 'refuse', 'reset-mid-body', 'close-mid-body'])}, rig='thread')


def floors(tier: str) -> Dict[str, int]:
    return {'conn_pool_histories': 40, 'histories_with_clean_ledger': 1000, 'had_upstream_at_end': 300, 'faults_fired': 50, 'mode:remote': 200, 'class:prefix': 150,
            'class:upstream': 100, 'class:fault': 100, 'class:idle-timeout': 30, 'repeated_histories': 10, 'threaded_histories': 30, 'tls_front_histories': 12,
            'ending:reset': 100, 'ending:close': 300}


if __name__ == '__main__':
    raise SystemExit(driver.main(__import__('checks.c10', fromlist=['x'])))

"""C02 — the forwarded HTTP request is semantically identical to the client's.

Step rig; the origin peer records what it receives; h11 (server role) parses it and
the result is compared with the generator's abstract request.
"""
import random
from typing import Any, Dict, List, Optional, Tuple

from rig import env, driver, shim, monitors, h11util, gen_http as G

env.quiet_logging()

from rig.steprig import StepRig, make_flags, LoopDied      # noqa: E402

PROPERTY = 'C02'
LEVEL = 'exploration'
LEVEL_TEXT = ('Exploration: generated well-formed proxy requests (methods, targets, header sets/casings/spacings, '
              'Content-Length and chunked bodies incl. empty, chunk layouts) x arrival segmentation (every 2-piece cut '
              'of short requests, random n-cuts, byte-wise) x position on the connection (1st..3rd); what the origin '
              'peer reads is parsed by h11 and compared field by field with the generator ground truth.')
LEVEL_NOTE = 'Trusted: h11 as reference HTTP parser; generator ground truth; AF_UNIX client sockets preserve piece boundaries.'
TECHNIQUE = 'runtime monitoring at the origin boundary: h11-parsed transcript vs generator ground truth (differential oracle)'
RULE = ('case = (abstract request, framing, chunk layout, cut list, position, flag set); non-trivial = request has a '
        'body or >=3 headers AND was delivered in >=2 pieces or at position >=2; distinct = request hash x cuts x position')
ASSUMPTIONS = ['header names are case-insensitively unique (quantifier)', 'h11 0.16 is a correct RFC 9112 parser']
SHARDS = {'quick': 8, 'thorough': 16}
BUDGET_S = {'quick': 45, 'thorough': 800}

_FLAGSETS = {
    'default': [],
    'disable': ['--disable-headers', 'x-blocked,Cookie'],
    'tiny': ['--client-recvbuf-size', '7', '--max-sendbuf-size', '7'],
}
ZONES5 = ['in:start-line', 'in:header-line', 'chunk-size-CRLF', 'chunk-data|chunk-data-CRLF', 'in:final-CRLF']


def make_request(rng: random.Random, case: Dict[str, Any], hp: bytes) -> G.Msg:
    fr = case['fr']
    path = b'/' + b'/'.join(G.token(rng, 1, 8) for _ in range(rng.randint(0, 3)))
    shape = rng.random()
    if shape < 0.08:
        path = rng.choice([b'//', b'///']) + path[1:]         # empty leading segments (path-abempty): '//cgi-bin//x'
    elif shape < 0.14:
        path = path + rng.choice([b'//', b'/./', b'/../x', b'/%2F', b'/;p=1', b'/a//b'])
    elif shape < 0.17:
        path = b'/' + G.token(rng, 1, 4) + b'/http://nested.test/x'
    if rng.random() < 0.5:
        path += b'?' + G.token(rng) + b'=' + rng.choice([b'1', b'a%20b', b"x;y", b'[1]', b'a=b&c=d', b'http://e/f'])
    more: List[Tuple[bytes, bytes]] = []
    if rng.random() < 0.5:
        more.append((rng.choice([b'Proxy-Connection', b'proxy-connection', b'PROXY-CONNECTION']), b'keep-alive'))
    if rng.random() < 0.4:
        more.append((rng.choice([b'Proxy-Authorization', b'proxy-authorization']), b'Basic dXNlcjpwYXNz'))
    if case['flags'] == 'disable':
        if rng.random() < 0.7:
            more.append((rng.choice([b'X-Blocked', b'x-blocked']), b'secret'))
        if rng.random() < 0.5:
            more.append((b'Cookie', b'a=b'))
    if rng.random() < 0.06:
        # a Connection field that names another field of this request next to keep-alive: both are forwarded as sent, and
        # naming a field here must not make it disappear from this or any later request
        named = rng.choice([b'Accept', b'Authorization', b'X-Req-Id', b'User-Agent', b'X-Trace', b'Referer'])
        more.append((rng.choice([b'Connection', b'connection']), rng.choice([b'keep-alive, ', b'Keep-Alive,']) + named))
        more.append((named, b'named-by-connection'))
    framing = {'none': 'none', 'cl': 'cl', 'cl0': 'cl'}.get(fr, 'chunked')
    size = case['size']
    body = None
    if fr == 'cl0' or fr == 'chunked-empty':
        body = b''
    elif framing != 'none':
        body = G.body_bytes(rng, max(1, size))
    # method tokens are case-sensitive: 'get', 'Purge', 'm-search' are valid, distinct from their upper-case spellings, and
    # are forwarded as sent
    odd = rng.choice([b'get', b'Purge', b'Report', b'm-search', b'pOST', b'Put', b'mkCol']) if rng.random() < 0.08 else None
    m = G.gen_request(rng, target=b'http://' + hp + path, host_header=hp, framing=framing, body=body, method=odd,
                      more_headers=more, ext=(fr == 'chunked-ext'), trailers=(fr == 'chunked-trailers'),
                      version=b'HTTP/1.1' if rng.random() < 0.9 else b'HTTP/1.0' if framing != 'chunked' else b'HTTP/1.1')
    m.path = path      # type: ignore[attr-defined]
    return m


def expected_headers(m: G.Msg, disabled: List[bytes]) -> Dict[bytes, List[bytes]]:
    exp = h11util.header_multiset(m.headers)
    for k in [b'proxy-authorization', b'proxy-connection'] + [d.lower() for d in disabled]:
        exp.pop(k, None)
    return exp


def compare(m: G.Msg, got: Dict[str, Any], disabled: List[bytes]) -> List[Tuple[str, Any]]:
    bad: List[Tuple[str, Any]] = []
    if got['method'] != m.method:
        bad.append(('method', (m.method, got['method'])))
    if got['target'] != m.path:        # type: ignore[attr-defined]
        bad.append(('target', (m.path, got['target'])))     # type: ignore[attr-defined]
    if got['version'] != m.version.split(b'/')[1]:
        bad.append(('version', (m.version, got['version'])))
    exp = expected_headers(m, disabled)
    gh = h11util.header_multiset(got['headers'])
    via = gh.pop(b'via', None)
    if via is None:
        bad.append(('via-missing', None))
    elif len(via) != 1 or b'proxy.py' not in via[0]:
        bad.append(('via-wrong', via))
    for k in (b'transfer-encoding',):
        if k in exp:
            exp[k] = [v.lower() for v in exp[k]]
        if k in gh:
            gh[k] = [v.lower() for v in gh[k]]
    # a Content-Length the proxy adds for a body it forwards de-chunked would be a framing change, judged via body
    for k in sorted(set(exp) | set(gh)):
        if exp.get(k) != gh.get(k):
            if k not in exp:
                bad.append(('extra-header:' + k.decode('latin-1'), gh.get(k)))
            elif k not in gh:
                bad.append(('missing-header:' + k.decode('latin-1'), exp.get(k)))
            else:
                bad.append(('header-value:' + k.decode('latin-1'), (exp.get(k), gh.get(k))))
    # "names ... intact": the spelling (letter case) of every forwarded field name is the one the client used
    sent_names = {k.lower(): k for k, _ in m.headers}
    for k, _ in got['raw_headers']:
        lk = k.lower()
        if lk in exp and lk in sent_names and k != sent_names[lk]:
            bad.append(('header-name-respelt', (sent_names[lk], k)))
            break
    if not got['complete']:
        bad.append(('incomplete-at-origin', len(got['body'])))
    elif got['body'] != m.body:
        bad.append(('body-differs', monitors.diff_streams(m.body, got['body'])))
    return bad


def run_case(case: Dict[str, Any]) -> Dict[str, Any]:
    rng = random.Random('c02:%s:%s' % (case['seed'], case['i']))
    flags = make_flags(_FLAGSETS[case['flags']], cache_key='c02:' + case['flags'])
    disabled = [b'x-blocked', b'cookie'] if case['flags'] == 'disable' else []
    shim.S.reset()
    texc = monitors.watch_task_exceptions()
    rig = StepRig(flags, case.get('mode', 'local'))
    viol: List[Dict[str, Any]] = []
    obs: Dict[str, int] = {}
    zones_hit = set()
    pos = case['pos']
    fr = case['fr']
    try:
        origin = rig.add_origin('127.0.%d.%d' % (rng.randint(0, 250), rng.randint(2, 250)))
        client = rig.add_client('unix')
        hp = origin.hostport
        m = make_request(rng, case, hp)
        cuts = case['cuts']
        if cuts == 'bytes':
            cutlist = list(range(1, len(m.raw)))
        elif isinstance(cuts, list):
            cutlist = [c for c in cuts if c < len(m.raw)]
        elif isinstance(cuts, dict):
            cand = [c for c in range(1, len(m.raw)) if m.zone_at(c) in cuts['zones']]
            cutlist = sorted({cand[(cuts['pick'] * (j + 1)) % len(cand)] for j in range(cuts.get('n', 1))}) if cand else []
        else:
            cutlist = G.random_cuts(rng, len(m.raw), int(cuts))
        for c in cutlist:
            zones_hit.add(m.zone_at(c))
        box: Dict[str, Any] = {}

        def accepted() -> bool:
            if 'oc' not in box:
                p = origin.accept()
                if p is not None:
                    box['oc'] = p
            return 'oc' in box
        # earlier requests on the same connection, each answered before the next
        for k in range(pos - 1):
            client.send(b'GET http://%s/warm%d HTTP/1.1\r\nHost: %s\r\n\r\n' % (hp, k, hp))
            if not rig.until(accepted, [client]):
                raise RuntimeError('no-upstream-connection')
            oc = box['oc']
            n0 = len(oc.rx)
            rig.until(lambda: len(oc.rx) > n0 and oc.rx.endswith(b'\r\n\r\n'), [oc])
            c0 = len(client.rx)
            oc.send(b'HTTP/1.1 200 OK\r\nContent-Length: 2\r\n\r\nok')
            rig.until(lambda: len(client.rx) >= c0 + 40, [client])
        base = len(box['oc'].rx) if 'oc' in box else 0
        pieces = G.cut_at(m.raw, cutlist)
        for pc in pieces:
            sent = 0
            while sent < len(pc):
                n = client.send(pc[sent:])
                if n < 0:
                    break
                sent += max(n, 0)
                rig.step(rng.randint(1, 3))
        # 0.4 s without progress is the usual patience; before it becomes a verdict the wait is repeated generously, so that a
        # loaded machine (70 KB requests, sixteen shards) is not mistaken for a proxy that never connects
        if not rig.until(accepted, [client], idle_timeout=0.4) and not rig.until(accepted, [client], idle_timeout=8.0):
            viol.append({'key': 'pos%d|%s|never-connected' % (min(pos, 2), fr), 'detail': {'request': m.raw, 'cuts': cutlist}})
        else:
            oc = box['oc']
            state = {'n': -1, 'ok': False}

            def complete() -> bool:
                if len(oc.rx) != state['n']:
                    state['n'] = len(oc.rx)
                    msgs, err, _ = h11util.parse_requests(bytes(oc.rx[base:]))
                    state['ok'] = bool(msgs) and msgs[0]['complete']
                return state['ok']
            rig.until(complete, [oc, client], idle_timeout=0.4)
            rig.settle([oc, client], quiet=6)
            msgs, err, left = h11util.parse_requests(bytes(oc.rx[base:]))
            pk = 'pos%d' % min(pos, 2)
            if err and not msgs:
                viol.append({'key': '%s|%s|origin-bytes-unparseable' % (pk, fr),
                             'detail': {'err': err, 'origin_got': bytes(oc.rx[base:base + 300])}})
            elif not msgs:
                cz = '+'.join(sorted(zones_hit)) if len(cutlist) == 1 else ('multi' if cutlist else 'whole')
                viol.append({'key': '%s|%s|nothing-forwarded|cut@%s' % (pk, fr, cz),
                             'detail': {'request': m.raw, 'cuts': cutlist, 'client_got': bytes(client.rx[-200:])}})
            else:
                bad = compare(m, msgs[0], disabled)
                if len(msgs) > 1 or left:
                    bad.append(('extra-bytes-after-request', left[:100] if left else msgs[1]['method']))
                if err:
                    bad.append(('h11-error', err))
                for (what, d) in bad:
                    if what.startswith(('via-', 'extra-header:', 'missing-header:')):
                        key = '%s|%s' % (pk, what)         # header hygiene does not depend on framing
                    else:
                        key = '%s|%s|%s' % (pk, fr, what)
                    viol.append({'key': key, 'detail': {'diff': d, 'request': m.raw[:1500], 'cuts': cutlist[:50],
                                                         'origin_got': bytes(oc.rx[base:base + 1500])}})
        if texc:
            for v in viol:
                v['detail']['task_exceptions'] = [t[0] for t in texc]
    except LoopDied as e:
        viol.append({'key': 'pos%d|%s|loop-died:%s' % (min(pos, 2), fr, e.where()), 'detail': {'tb': e.tb[-1200:]}})
    finally:
        rig.close()
    obs['fr:' + fr] = 1
    obs['pos:%d' % pos] = 1
    obs['pieces'] = len(cutlist) + 1
    for z in ZONES5:
        if any(z in h for h in zones_hit):
            obs['zone:' + z] = 1
    if pos >= 2:
        obs['later_position'] = 1
    nontrivial = (len(m.body) > 0 or len(m.headers) >= 3) and (len(cutlist) >= 1 or pos >= 2)
    import zlib
    return {'viol': viol, 'nontrivial': nontrivial,
            'sig': '%s/%d/%x/%x' % (fr, pos, zlib.crc32(m.raw), zlib.crc32(repr(cutlist).encode())),
            'obs': obs, 'sets': {'cut_zones': zones_hit},
            'sample': {'case': case, 'request': m.raw[:600], 'cuts': cutlist[:20], 'position': pos}}


FRS = ['none', 'cl', 'cl0', 'chunked', 'chunked-empty', 'chunked-ext', 'chunked-trailers']


def cases(tier: str, seed: int):
    rng = random.Random('c02cases:%d' % seed)
    i = 0
    nmsg = 14 if tier == 'quick' else 220
    # (a) every 2-piece cut of short requests (exhaustive per request), position 1 and 2
    for k in range(nmsg):
        i += 1
        fr = FRS[k % len(FRS)]
        base = {'seed': seed, 'i': i, 'fr': fr, 'flags': 'default', 'size': rng.choice([1, 3, 12]), 'pos': 1 + (k // len(FRS)) % 2}
        probe_rng = random.Random('c02:%s:%s' % (seed, i))
        n = len(make_request(probe_rng, dict(base, cuts=[]), b'127.0.100.100:50000').raw)
        yield dict(base, cuts=[])
        for c in range(1, n + 6):
            yield dict(base, cuts=[c])
        yield dict(base, cuts='bytes')
    # (a2) cuts aimed at the chunked-framing zones
    ZS = ['chunk-size-CRLF|chunk-data', 'in:chunk-size-CRLF', 'chunk-size|chunk-size-CRLF', 'chunk-data|chunk-data-CRLF',
          'in:chunk-data-CRLF', 'chunk-data-CRLF|chunk-size', 'chunk-data-CRLF|last-chunk-size', 'in:final-CRLF',
          'last-chunk-CRLF|final-CRLF', 'in:last-chunk-CRLF']
    for k in range(1200 if tier == 'quick' else 12000):
        i += 1
        yield {'seed': seed, 'i': i, 'fr': ['chunked', 'chunked-ext', 'chunked-trailers', 'chunked-empty'][k % 4],
               'flags': 'default', 'size': rng.choice([1, 5, 40, 300]), 'pos': 1 + k % 2,
               'cuts': {'zones': [ZS[(k // 4) % len(ZS)]], 'pick': k, 'n': 1 + (k % 3 == 0)}}
    # (b) random requests, random cuts, positions 1..3, flag sets
    nrand = 500 if tier == 'quick' else 30000
    for k in range(nrand):
        i += 1
        yield {'seed': seed, 'i': i, 'fr': FRS[k % len(FRS)], 'flags': rng.choice(['default', 'default', 'disable', 'tiny']),
               'size': rng.choice([1, 17, 300, 5000, 70000]), 'pos': rng.choice([1, 1, 2, 3]),
               'cuts': rng.choice([0, 1, 2, 5, 20]), 'mode': rng.choice(['local', 'local', 'remote'])}


    # (c) bodies at and around the sizes the proxy itself works in (128 KiB re-chunking unit, 64 KiB send unit)
    for k, size in enumerate([65535, 65536, 65537, 131071, 131072, 131073, 262144, 393216] * (1 if tier == 'quick' else 6)):
        for fr in ('chunked', 'cl', 'chunked-ext'):
            i += 1
            yield {'seed': seed, 'i': i, 'fr': fr, 'flags': 'default', 'size': size, 'pos': 1 + (k % 2), 'cuts': rng.choice([0, 3, 20]),
                   'mode': rng.choice(['local', 'remote'])}


def floors(tier: str) -> Dict[str, int]:
    fl = {'later_position': 50, 'distinct_nontrivial': 300}
    for z in ZONES5:
        fl['zone:' + z] = 50
    for f in FRS:
        fl['fr:' + f] = 30
    return fl


if __name__ == '__main__':
    raise SystemExit(driver.main(__import__('checks.c02', fromlist=['x'])))

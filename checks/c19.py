"""C19 — the proxy listens where configured, reports its ports truthfully, shuts down cleanly.

Live rig: one driver subprocess per configuration runs the assembled product (proxy.Proxy.setup()/shutdown():
listeners, acceptor processes, worker processes).  Observed from outside: connect()+request to every configured
endpoint, the kernel's table of listening sockets owned by the driver's process tree (/proc/<pid>/fd inodes x
/proc/net/tcp{,6}, /proc/net/unix), flags.port / flags.ports as the embedding API reports them, the port file
and pid file, and after shutdown: connects, the process table, the files.
"""
import os
import random
import shutil
import socket
import time
import threading
import itertools
from typing import Any, Dict, List, Optional, Set, Tuple

from rig import env, driver
from rig import liverig

PROPERTY = 'C19'
LEVEL = 'exploration'
LEVEL_TEXT = ('Exploration over enumerated configurations: --hostname in {127.0.0.1, ::1} x --hostnames in {none, other '
              'family, second IPv4 address} x --port fixed/0 x --ports with 0..3 entries fixed/0 (OS-assigned ports only '
              'with a single listening address) x --unix-socket-path x --port-file/--pid-file x {threaded, threadless '
              'local, threadless remote} x acceptors/workers in {1,2} x PYTHONHASHSEED values (listener order depends on '
              'set iteration order). Each configuration is started in a fresh process and judged against the '
              'kernel\'s listening-socket table, then shut down and judged against the process table and file system.')
LEVEL_NOTE = ('Trusted: /proc/net/tcp{,6} + /proc/<pid>/fd as ground truth for what is bound; connect() for what accepts. '
              'With both --port 0 and OS-assigned --ports the identity of the primary port is undecidable from outside: '
              'only set equality and membership are judged there. With --unix-socket-path the primary TCP port is not bound '
              'and flags.port is not judged.')
TECHNIQUE = 'runtime monitoring of the live product: reported ports / port file vs the kernel listening-socket table; post-shutdown process-table and file-system audit'
RULE = ('case = one listening configuration x execution mode x hash seed; non-trivial = more than one TCP endpoint, or an '
        'OS-assigned port, or a unix socket; distinct = configuration signature')
ASSUMPTIONS = ['chosen fixed ports are free when the driver starts (EADDRINUSE => retried, then inconclusive)']
SHARDS = {'quick': 8, 'thorough': 8}
BUDGET_S = {'quick': 50, 'thorough': 1200}

REQ = b'GET / HTTP/1.1\r\nHost: probe.test\r\n\r\n'


def probe(host: Optional[str], port: int, unix_path: Optional[str] = None) -> Tuple[bool, bytes]:
    """connect + one request: (accepted, first bytes of the answer)"""
    if unix_path:
        s = socket.socket(socket.AF_UNIX, socket.SOCK_STREAM)
        target: Any = unix_path
    else:
        assert host is not None
        s = socket.socket(socket.AF_INET6 if ':' in host else socket.AF_INET, socket.SOCK_STREAM)
        target = (host, port)
    s.settimeout(30)
    try:
        s.connect(target)
    except OSError:
        s.close()
        return False, b''
    try:
        s.sendall(REQ)
        data = s.recv(200)
    except socket.timeout:
        data = b'<no answer within 30 s>'
    except OSError:
        data = b''
    finally:
        s.close()
    return True, data


def probe3(host: Optional[str], port: int, unix_path: Optional[str] = None) -> Tuple[bool, bytes]:
    """probe(); an accepted connection that gets no answer within 30 s is tried twice more, one after the other, on the
    otherwise idle instance.  Three silent probes in a row = b'<never answers>' (a verdict); fewer = b'<no answer ...>'
    (slow machine: inconclusive)."""
    ok, data = probe(host, port, unix_path)
    if not (ok and data.startswith(b'<no answer')):
        return ok, data
    for _ in range(2):
        ok2, data2 = probe(host, port, unix_path)
        if not (ok2 and data2.startswith(b'<no answer')):
            return ok, data          # it does answer: the first silence was the machine
    return True, b'<never answers: 3 probes of 30 s each on an idle instance>'


def server_closes_first(host: str, port: int) -> bool:
    """A conversation the proxy ends itself (rejected request): read to EOF, only then close."""
    s = socket.socket(socket.AF_INET6 if ':' in host else socket.AF_INET, socket.SOCK_STREAM)
    s.settimeout(30)
    try:
        s.connect((host, port))
        s.sendall(b'GARBAGE-REQUEST\r\n\r\n')
        while s.recv(4096):
            pass
        time.sleep(0.05)
        return True
    except OSError:
        return False
    finally:
        s.close()


class Echo(threading.Thread):
    def __init__(self) -> None:
        super().__init__(daemon=True)
        self.ls = socket.socket(socket.AF_INET, socket.SOCK_STREAM)
        self.ls.bind(('127.0.0.9', 0))
        self.ls.listen(8)
        self.port = self.ls.getsockname()[1]
        self.stop = False

    def run(self) -> None:
        self.ls.settimeout(0.2)
        while not self.stop:
            try:
                c, _ = self.ls.accept()
            except socket.timeout:
                continue
            except OSError:
                return
            threading.Thread(target=self._echo, args=(c,), daemon=True).start()

    def _echo(self, c: socket.socket) -> None:
        try:
            c.settimeout(60)
            while True:
                d = c.recv(4096)
                if not d:
                    break
                c.sendall(d)
        except OSError:
            pass
        finally:
            c.close()

    def close(self) -> None:
        self.stop = True
        self.ls.close()


class BusyClient(threading.Thread):
    """A client that keeps a CONNECT tunnel busy (a round trip every 50 ms) until told to stop or until the proxy ends it."""

    def __init__(self, host: str, port: int, echo: Echo) -> None:
        super().__init__(daemon=True)
        self.addr, self.echo = (host, port), echo
        self.rounds = 0
        self.established = threading.Event()
        self.quit = threading.Event()
        self.ended_by_proxy = False

    def run(self) -> None:
        s = socket.socket(socket.AF_INET6 if ':' in self.addr[0] else socket.AF_INET, socket.SOCK_STREAM)
        s.settimeout(30)
        try:
            s.connect(self.addr)
            t = b'127.0.0.9:%d' % self.echo.port
            s.sendall(b'CONNECT %s HTTP/1.1\r\nHost: %s\r\n\r\n' % (t, t))
            head = b''
            while b'\r\n\r\n' not in head:
                d = s.recv(4096)
                if not d:
                    return
                head += d
            if not head.startswith(b'HTTP/1.1 200'):
                return
            while not self.quit.is_set():
                msg = b'ping%d;' % self.rounds
                s.sendall(msg)
                got = b''
                while len(got) < len(msg):
                    d = s.recv(4096)
                    if not d:
                        self.ended_by_proxy = True
                        return
                    got += d
                self.rounds += 1
                if self.rounds >= 2:
                    self.established.set()
                time.sleep(0.05)
        except OSError:
            self.ended_by_proxy = True
        finally:
            s.close()


def run_cli_signal(case: Dict[str, Any]) -> Dict[str, Any]:
    """The product run as a command (python -m proxy ...) and stopped the way a service manager or a terminal stops it: one of
    the signals it installs a handler for.  Afterwards: process gone, no child left, listener gone, port and pid files gone."""
    import signal
    import subprocess
    import sys
    run_dir = env.workdir('c19', 'cli-%d-%d' % (os.getpid(), case['i']))
    os.makedirs(run_dir, exist_ok=True)
    pf, pidf = os.path.join(run_dir, 'port.txt'), os.path.join(run_dir, 'pid.txt')
    sig = getattr(signal, case['signal'])
    feat = 'cli|%s|%s' % (case['mode'], case['signal'])
    viol: List[Dict[str, Any]] = []
    obs: Dict[str, int] = {'cli_cases': 1}
    inconclusive = None
    args = [sys.executable, '-m', 'proxy', '--hostname', '127.0.0.1', '--port', '0', '--num-acceptors', '1', '--num-workers', '1', '--log-level', 'CRITICAL',
            '--port-file', pf, '--pid-file', pidf]
    args += {'threaded': ['--threaded'], 'local': ['--threadless', '--local-executor', '1'], 'remote': ['--threadless', '--local-executor', '0']}[case['mode']]
    e = dict(os.environ)
    e.update({'PYTHONPATH': env.REPO, 'PYTHONDONTWRITEBYTECODE': '1'})
    e.pop(env.GUARD, None)
    proc = subprocess.Popen(args, cwd=run_dir, env=e, stdout=subprocess.DEVNULL, stderr=subprocess.DEVNULL, start_new_session=True)
    kids: List[int] = []
    try:
        end = time.time() + 40
        port = None
        while time.time() < end and proc.poll() is None:
            try:
                port = int(open(pf).read().split()[0])
                break
            except (OSError, ValueError, IndexError):
                time.sleep(0.05)
        if port is None:
            inconclusive = 'cli-never-wrote-its-port-file'
        else:
            # the handlers are installed at the end of start-up: wait until the kernel lists the signal as caught
            end = time.time() + 30
            caught = False
            while time.time() < end and proc.poll() is None:
                try:
                    st = open('/proc/%d/status' % proc.pid).read()
                    mask = int([l for l in st.splitlines() if l.startswith('SigCgt:')][0].split()[1], 16)
                    if mask & (1 << (int(sig) - 1)):
                        caught = True
                        break
                except (OSError, IndexError, ValueError):
                    pass
                time.sleep(0.05)
            if not caught:
                # no handler for a signal the product documents: stopping it this way cannot be clean
                obs['signal_not_handled'] = 1
            ok, data = probe('127.0.0.1', port)
            if not ok or not data.startswith(b'HTTP/1.'):
                inconclusive = 'cli-instance-does-not-answer'
            else:
                kids = liverig.process_tree(proc.pid)
                table = liverig.listening([proc.pid] + kids)
                inode = table['tcp_inodes'].get(('127.0.0.1', port))
                os.kill(proc.pid, sig)
                try:
                    proc.wait(60)
                except subprocess.TimeoutExpired:
                    viol.append({'key': feat + '|process-does-not-exit', 'detail': {'handled': caught}})
                if proc.poll() is not None:
                    time.sleep(0.3)
                    still = [k for k in kids if liverig.alive(k)]
                    d = {'exit_status': proc.returncode, 'handler_installed': caught, 'children_alive': still, 'port': port}
                    if still:
                        viol.append({'key': feat + '|child-process-remains', 'detail': d})
                    if inode is not None and inode in liverig.listening_inodes():
                        viol.append({'key': feat + '|endpoint-accepts-after-stop', 'detail': d})
                    if os.path.exists(pf):
                        viol.append({'key': feat + '|port-file-remains', 'detail': d})
                    if os.path.exists(pidf):
                        viol.append({'key': feat + '|pid-file-remains', 'detail': d})
                    if not viol:
                        obs['cli_stops_checked'] = 1
    finally:
        for k in kids + [proc.pid]:
            try:
                os.kill(k, signal.SIGKILL)
            except OSError:
                pass
        try:
            proc.wait(5)
        except Exception:
            pass
        shutil.rmtree(run_dir, ignore_errors=True)
    obs['mode:' + case['mode']] = 1
    return {'viol': viol, 'nontrivial': True, 'inconclusive': inconclusive, 'sig': feat, 'obs': obs, 'sample': {'case': case}}


def run_case(case: Dict[str, Any]) -> Dict[str, Any]:
    if case.get('kind') == 'cli-signal':
        return run_cli_signal(case)
    rng = random.Random('c19:%s:%s' % (case['seed'], case['i']))
    run_dir = env.workdir('c19', '%d-%d' % (os.getpid(), case['i']))
    viol: List[Dict[str, Any]] = []
    obs: Dict[str, int] = {}
    inconclusive = None
    hosts = [case['hostname']] + list(case['hostnames'])
    feat = '%s|%s|%s' % (case['mode'], 'unix' if case['unix'] else ('multi-host' if len(hosts) > 1 else 'single-host'),
                         'ports%d' % len(case['ports']))
    live: Optional[liverig.Live] = None
    try:
        for attempt in range(3):
            # concrete ports
            taken: Set[int] = set()

            def fresh(h: str) -> int:
                for _ in range(50):
                    p = liverig.free_port(h)
                    if p not in taken and all(_free(x, p) for x in hosts):
                        taken.add(p)
                        return p
                raise OSError('no free port')
            port = fresh(hosts[0]) if case['port'] == 'fixed' else 0
            # 'primary': an additional port carrying the number given as --port, which a unix-socket deployment does not bind
            # as primary (so it is an ordinary additional TCP port there)
            ports = [fresh(hosts[0]) if p == 'fixed' else port if p == 'primary' else 0 for p in case['ports']]
            args = ['--hostname', case['hostname'], '--port', str(port), '--num-acceptors', str(case['acceptors']),
                    '--num-workers', str(case['workers']), '--log-level', 'CRITICAL']
            if case['hostnames']:
                args += ['--hostnames'] + list(case['hostnames'])
            for p in ports:
                args += ['--ports', str(p)]
            if case['mode'] == 'threaded':
                args += ['--threaded']
            elif case['mode'] == 'local':
                args += ['--threadless', '--local-executor', '1']
            else:
                args += ['--threadless', '--local-executor', '0']
            upath = os.path.join(run_dir, 'p.sock') if case['unix'] else None
            if upath:
                args += ['--unix-socket-path', upath]
            pf = os.path.join(run_dir, 'port.txt') if case['port_file'] else None
            pidf = os.path.join(run_dir, 'pid.txt') if case['pid_file'] else None
            if pf:
                args += ['--port-file', pf]
            if pidf:
                args += ['--pid-file', pidf]
            second = None
            pf2 = os.path.join(run_dir, 'port2.txt')
            if case.get('second_instance') and not case['unix']:
                second = ['--hostname', '127.0.0.1', '--port', '0', '--num-acceptors', '1', '--num-workers', '1', '--log-level', 'CRITICAL',
                          '--port-file', pf2] + {'threaded': ['--threaded'], 'local': ['--threadless', '--local-executor', '1'],
                                                 'remote': ['--threadless', '--local-executor', '0']}[case['mode']]
            try:
                live = liverig.Live(args, run_dir, hashseed=case['hashseed'], second=second)
                break
            except liverig.LiveFailed as e:
                if 'Address already in use' in str(e) and attempt < 2:
                    continue
                inconclusive = 'driver-failed-to-start: %s' % str(e)[:200]
                raise
        assert live is not None
        rd = live.ready
        P, L = rd['port'], list(rd['ports'])
        pids = [rd['pid']] + rd['children']
        table = liverig.listening(pids)
        bound: Set[Tuple[str, int]] = table['tcp']
        detail = {'args': args, 'reported_port': P, 'reported_ports': L, 'bound': sorted(bound), 'hashseed': case['hashseed']}

        def bad(kind: str, **d: Any) -> None:
            dd = dict(detail)
            dd.update(d)
            viol.append({'key': '%s|%s' % (feat, kind), 'detail': dd})
        # a second instance in the same process has its own listener, its own port, its own port file - and leaves the first alone
        sec = rd.get('second')
        if sec is not None:
            sp = sec['port']
            mine2 = ('127.0.0.1', sp)
            if mine2 not in bound:
                bad('second-instance-reports-a-port-it-does-not-listen-on', second=sec)
            elif sp == P or sp in L:
                bad('second-instance-reports-the-first-instances-port', second=sec)
            else:
                ok2, data2 = probe3('127.0.0.1', sp)
                try:
                    lines2 = [int(x) for x in open(pf2).read().split()]
                except (OSError, ValueError):
                    lines2 = []
                if not ok2 or not data2.startswith(b'HTTP/1.'):
                    bad('second-instance-endpoint-does-not-serve', second=sec, answer=data2[:60])
                elif lines2 != [sp]:
                    bad('second-instance-port-file-wrong', second=sec, port_file=lines2)
                else:
                    obs['second_instances_checked'] = 1
                bound = set(bound) - {mine2}
                table['tcp_inodes'].pop(mine2, None)
        cfg_ports = ([] if case['unix'] else [port]) + ports
        expected_n = len(hosts) * len(cfg_ports)
        fixed = {(h, p) for h in hosts for p in cfg_ports if p != 0}
        # (1) every configured endpoint is bound and accepts
        for (h, p) in sorted(fixed):
            if (h, p) not in bound:
                bad('configured-endpoint-not-bound', endpoint=[h, p])
            ok, data = probe3(h, p)
            if ok and data.startswith(b'<no answer'):
                inconclusive = 'probe-answer-watchdog'
            elif not ok or not data.startswith(b'HTTP/1.'):
                bad('configured-endpoint-does-not-serve', endpoint=[h, p], accepted=ok, answer=data[:60])
            obs['endpoints_probed'] = obs.get('endpoints_probed', 0) + 1
        if len(bound) != expected_n:
            bad('number-of-listening-sockets-differs', expected=expected_n)
        discovered = bound - fixed
        for (h, p) in sorted(discovered):
            ok, data = probe3(h, p)
            if ok and data.startswith(b'<no answer'):
                inconclusive = 'probe-answer-watchdog'
            elif not ok or not data.startswith(b'HTTP/1.'):
                bad('os-assigned-endpoint-does-not-serve', endpoint=[h, p])
            obs['endpoints_probed'] = obs.get('endpoints_probed', 0) + 1
        if upath:
            ok, data = probe3(None, 0, upath)
            if ok and data.startswith(b'<no answer'):
                inconclusive = 'probe-answer-watchdog'
            elif not ok or not data.startswith(b'HTTP/1.') or upath not in table['unix']:
                bad('unix-socket-does-not-serve', accepted=ok, answer=data[:60], unix=sorted(table['unix']))
            obs['unix_probed'] = 1
        # (2) reported ports == bound ports, primary first
        bound_ports = {p for (_, p) in bound}
        reported = set(L) | (set() if case['unix'] else {P})
        if reported != bound_ports:
            bad('reported-ports-differ-from-bound-ports', missing=sorted(bound_ports - reported), extra=sorted(reported - bound_ports))
        if len(L) != len(set(L)) or (not case['unix'] and P in L):
            bad('reported-ports-contain-duplicates')
        if not case['unix']:
            if port != 0:
                if P != port:
                    bad('primary-port-misreported', configured_primary=port)
                else:
                    obs['primary_identity_checked'] = 1
            else:
                disc_ports = {p for (_, p) in discovered}
                if P not in disc_ports:
                    bad('primary-port-misreported', configured_primary=0, os_assigned=sorted(disc_ports))
                elif len(disc_ports) == 1:
                    obs['primary_identity_checked'] = 1
        if pf:
            try:
                lines = [int(x) for x in open(pf).read().split()]
            except (OSError, ValueError) as e:
                lines = []
                bad('port-file-unreadable', err=repr(e))
            if lines:
                if set(lines) != bound_ports or len(lines) != len(set(lines)):
                    bad('port-file-differs-from-bound-ports', port_file=lines)
                elif not case['unix'] and (lines[0] != P or (port != 0 and lines[0] != port)):
                    bad('port-file-primary-not-first', port_file=lines)
                else:
                    obs['port_files_checked'] = 1
        if pidf:
            try:
                if int(open(pidf).read().strip()) != rd['pid']:
                    bad('pid-file-wrong')
            except (OSError, ValueError) as e:
                bad('pid-file-unreadable', err=repr(e))
        # (2b) history for the restart: on every fixed endpoint a conversation the proxy itself closed first
        if case.get('restart') and fixed:
            for (h, p) in sorted(fixed):
                if server_closes_first(h, p) and any(st == '06' for (_, st) in liverig.tcp_sockets(p)):
                    obs['time_wait_left_on_endpoint'] = obs.get('time_wait_left_on_endpoint', 0) + 1
        # (2c) a client that is connected and busy while the proxy is told to shut down
        busy = None
        echo = None
        if case.get('busy_client') and not case['unix']:
            echo = Echo()
            echo.start()
            busy = BusyClient(hosts[0], P, echo)
            busy.start()
            if not busy.established.wait(30):
                inconclusive = 'busy-client-not-established'
                busy.quit.set()
                busy = None
        # (3) shutdown
        kids = list(rd['children'])
        down = live.shutdown()
        if busy is not None:
            if down.get('tag') == 'TIMEOUT' and busy.is_alive() and not busy.ended_by_proxy:
                # not down after 40 s with the tunnel still echoing.  Is the client what it is waiting for?  Let go and see.
                rounds = busy.rounds
                busy.quit.set()
                busy.join(10)
                down = live.await_down(40)
                if down.get('tag') == 'DOWN':
                    bad('shutdown-waits-for-connected-clients', client_round_trips_during_shutdown=rounds)
            else:
                obs['shutdowns_with_busy_client'] = 1
            busy.quit.set()
        if echo is not None:
            echo.close()
        if down.get('tag') != 'DOWN':
            bad('shutdown-did-not-complete', tag=down.get('tag'))
            live.kill()
        else:
            if down.get('error'):
                bad('shutdown-raised', error=down['error'][:300])
            still = [k for k in kids if liverig.alive(k)]
            if still or down.get('children_after'):
                bad('child-process-remains-after-shutdown', pids=still or down.get('children_after'))
            # the very listening sockets of this instance (by inode) must be gone from the kernel's table; a bare connect()
            # to the port number would also hit an unrelated process that was handed the same number in the meantime
            still_listening = liverig.listening_inodes()
            for (h, p) in sorted(bound):
                if table['tcp_inodes'].get((h, p)) in still_listening:
                    bad('endpoint-accepts-after-shutdown', endpoint=[h, p], connectable=liverig.can_connect(h, p, 1.0))
                else:
                    obs['endpoints_gone_after_shutdown'] = obs.get('endpoints_gone_after_shutdown', 0) + 1
            if upath and os.path.exists(upath):
                bad('unix-socket-path-remains-after-shutdown')
            if pf and os.path.exists(pf):
                bad('port-file-remains-after-shutdown')
            if pidf and os.path.exists(pidf):
                bad('pid-file-remains-after-shutdown')
            if not live.exit():
                bad('driver-process-did-not-exit')
            obs['shutdowns_checked'] = 1
            # (4) start again where the first instance stood: same options, same fixed ports
            if case.get('restart') and fixed and not viol:
                live = None
                try:
                    live = liverig.Live(args, run_dir, hashseed=case['hashseed'])
                except liverig.LiveFailed as e:
                    if 'Address already in use' in str(e):
                        others = {p: [a for (a, st) in liverig.tcp_sockets(p) if st == '0A'] for (_, p) in sorted(fixed)}
                        if any(others.values()):
                            inconclusive = 'restart: another process listens on the port by now'
                        else:
                            bad('restart-on-the-same-ports-fails-address-in-use', error=str(e)[:300],
                                sockets={p: liverig.tcp_sockets(p) for (_, p) in sorted(fixed)})
                    else:
                        inconclusive = 'restart-driver-failed: %s' % str(e)[:200]
                if live is not None:
                    pids2 = [live.ready['pid']] + live.ready['children']
                    bound2 = liverig.listening(pids2)['tcp']
                    for (h, p) in sorted(fixed):
                        ok, data = probe(h, p)
                        if (h, p) not in bound2 or not ok or not (data.startswith(b'HTTP/1.') or data.startswith(b'<no answer')):
                            bad('restarted-instance-endpoint-does-not-serve', endpoint=[h, p], accepted=ok, answer=data[:60])
                    down2 = live.shutdown()
                    if down2.get('tag') != 'DOWN':
                        bad('shutdown-did-not-complete', tag=down2.get('tag'), instance='restarted')
                        live.kill()
                    else:
                        live.exit()
                        obs['restarts_checked'] = 1
    except liverig.LiveFailed:
        pass
    except OSError as e:
        inconclusive = inconclusive or 'harness: %r' % e
    finally:
        if live is not None:
            live.kill()
        shutil.rmtree(run_dir, ignore_errors=True)
    obs.update({'mode:' + case['mode']: 1, 'configs': 1, 'hashseed:%d' % case['hashseed']: 1,
                'os_assigned_configs': 1 if (case['port'] == 0 or 0 in case['ports']) else 0,
                'unix_with_port_number_reused_as_additional': 1 if 'primary' in case['ports'] else 0,
                'multi_host_configs': 1 if len(hosts) > 1 else 0, 'unix_configs': 1 if case['unix'] else 0})
    nontrivial = len(hosts) * (len(case['ports']) + 1) > 1 or case['port'] == 0 or case['unix']
    seen = set()
    uniq = []
    for v in viol:
        if v['key'] not in seen:
            seen.add(v['key'])
            uniq.append(v)
    return {'viol': uniq, 'nontrivial': nontrivial, 'inconclusive': inconclusive,
            'sig': '%s/%s/%s/%s/%s/%s/%s' % (case['hostname'], case['hostnames'], case['port'], case['ports'], case['unix'], case['mode'], case['hashseed']),
            'obs': obs, 'sample': {'case': case}}


def _free(host: str, port: int) -> bool:
    s = socket.socket(socket.AF_INET6 if ':' in host else socket.AF_INET, socket.SOCK_STREAM)
    try:
        s.bind((host, port))
        return True
    except OSError:
        return False
    finally:
        s.close()


def all_configs() -> List[Dict[str, Any]]:
    out = []
    for hostname in ('127.0.0.1', '::1'):
        others = [[], ['::1'] if hostname == '127.0.0.1' else ['127.0.0.1'], ['127.0.0.2'] if hostname == '127.0.0.1' else ['127.0.0.3', '127.0.0.1']]
        for hostnames in others:
            for port in ('fixed', 0):
                for ports in ([], ['fixed'], [0], ['fixed', 'fixed'], ['fixed', 0], ['fixed', 'fixed', 'fixed'], [0, 0]):
                    if hostnames and (port == 0 or 0 in ports):
                        continue        # an OS-assigned port is per address
                    for unix in (False, True):
                        if unix and port == 0:
                            continue    # --port is ignored with a unix socket: one representative is enough
                        out.append({'hostname': hostname, 'hostnames': hostnames, 'port': port, 'ports': ports, 'unix': unix})
            for ports in (['primary'], ['primary', 'fixed'], ['fixed', 'primary']):
                out.append({'hostname': hostname, 'hostnames': hostnames, 'port': 'fixed', 'ports': ports, 'unix': True})
    return out


def cases(tier: str, seed: int):
    rng = random.Random('c19cases:%d' % seed)
    cfgs = all_configs()
    modes = ['threaded', 'local', 'remote']
    i = 0
    if tier == 'quick':
        # a covering sample: every configuration shape at least once, modes and hash seeds rotated
        rng.shuffle(cfgs)
        cfgs.sort(key=lambda c: 0 if 'primary' in c['ports'] else 1)        # stable: the rare shape is always sampled
        picked = cfgs[:3] + cfgs[18:59]
    else:
        picked = cfgs
    for k, (mode, sg) in enumerate([(m, sg) for sg in ('SIGINT', 'SIGTERM', 'SIGHUP', 'SIGQUIT') for m in (modes if tier != 'quick' else [modes[hash(sg) % 1]])] if tier != 'quick'
                                   else [('local', 'SIGINT'), ('remote', 'SIGTERM'), ('threaded', 'SIGHUP'), ('local', 'SIGQUIT'), ('remote', 'SIGQUIT')]):
        i += 1
        yield {'seed': seed, 'i': i, 'kind': 'cli-signal', 'mode': mode, 'signal': sg}
    for k, c in enumerate(picked):
        for mode in (modes if tier != 'quick' else [modes[k % 3]]):
            for hs in ([0, 1, 2, 3] if tier != 'quick' else [k % 4]):
                i += 1
                d = dict(c)
                d.update({'seed': seed, 'i': i, 'mode': mode, 'hashseed': hs, 'acceptors': rng.choice([1, 2]), 'workers': rng.choice([1, 2]),
                          'port_file': rng.random() < 0.8, 'pid_file': rng.random() < 0.5,
                          'restart': (i % 3 == 0) if tier == 'quick' else (hs in (1, 3)),
                          'busy_client': (i % 2 == 0) if tier == 'quick' else (hs in (2, 3)),
                          'second_instance': (i % 3 == 1) if tier == 'quick' else (hs == 0)})
                yield d


def floors(tier: str) -> Dict[str, int]:
    return {'configs': 30, 'endpoints_probed': 60, 'shutdowns_checked': 30, 'os_assigned_configs': 5, 'multi_host_configs': 8,
            'unix_configs': 4, 'unix_with_port_number_reused_as_additional': 2, 'port_files_checked': 15, 'primary_identity_checked': 15, 'mode:threaded': 5, 'mode:local': 5, 'mode:remote': 5,
            'restarts_checked': 5, 'time_wait_left_on_endpoint': 5, 'shutdowns_with_busy_client': 8, 'second_instances_checked': 4, 'cli_stops_checked': 4}


if __name__ == '__main__':
    raise SystemExit(driver.main(__import__('checks.c19', fromlist=['x'])))

"""C13 — the static file server never serves anything outside its directory.

Step rig with --enable-static-server over a generated directory tree that has files
with unique contents inside the root, beside it (look-alike sibling) and above it.
Oracle: client response (h11, gunzip) vs file-system ground truth; audit 'open' events
must never name a decoy (a planted file outside the root).
"""
import os
import time
import gzip
import shutil
import random
import itertools
import posixpath
from urllib.parse import unquote_to_bytes
from typing import Any, Dict, List, Optional, Tuple

from rig import env, driver, shim, audit, h11util

env.quiet_logging()

from proxy.http.server import HttpWebServerBasePlugin, httpProtocolTypes    # noqa: E402
from rig.steprig import StepRig, make_flags, LoopDied      # noqa: E402

PROPERTY = 'C13'
LEVEL = 'exploration'
LEVEL_TEXT = ('Exploration with an exhaustive sub-space: every request path made of <= 3 (quick) / 4 (thorough) tokens '
              'from {names inside and outside the root, "/", ".", "..", "%2e", "%2e%2e", "%2f", "%00", "//", "?"} '
              'plus random paths up to 12 tokens, plus structured climbs (from every depth of the tree, with the separator '
              'noise the OS collapses - "//", "/./", "///" - in front of, between and after the ".." segments), plus files '
              'around 64 KiB, 1 MiB and 2 MiB, plus generated query strings made of path-like material (dot-segments, '
              'the root\'s own name) appended to confined and escaping paths, each sent to the real web-server plugin; the response is compared '
              'with the file system and the audit hook watches every open() for decoy files.')
LEVEL_NOTE = 'Trusted: posixpath.normpath as dot-segment resolver; unique file contents identify which file was served.'
TECHNIQUE = 'runtime monitoring: client transcript vs file-system ground truth + sys.addaudithook("open") decoy watch'
RULE = ('case = block of request paths over the token alphabet; a path is non-trivial when it contains a dot-segment, '
        'an escape, a query or a doubled separator; distinct = path bytes')
ASSUMPTIONS = ['the generated tree is symlink-free', 'a 200 may name the file by the raw or the percent-decoded path (the '
               'property does not say whether escapes are decoded) but it must lie inside the root']
SHARDS = {'quick': 8, 'thorough': 16}
BUDGET_S = {'quick': 45, 'thorough': 800}
EXHAUSTIVE = {'quick': ['all paths of <= 3 alphabet tokens'], 'thorough': ['all paths of <= 4 alphabet tokens']}

TOKENS = ['/', '.', '..', '%2e', '%2e%2e', '%2f', '%00', '//', 'a.txt', 'sub', 'c.txt', 'secret.txt', 'public-secret',
          'x.txt', 'public', 'nope', '..;', '\\', '%5c', '%2E%2E', '%252e%252e', '%252f', '%25%32%65%25%32%65']
DASH_TOKENS = ['/', '.', '..', '%2e%2e', '//', 'dashboard', 'dashboard', 'proxy.html', 'app.js', 'secret.txt', 'a.txt', 'public-secret', 'x.txt', '?']
TREE = {
    'public/a.txt': 'tiny',                       # below the compression threshold
    'public/index.html': '<html>index ' + 'i' * 100 + '</html>',
    'public/big.bin': 'B' * 5000,
    'public/sub/c.txt': 'content of sub/c.txt, long enough to be compressed',
    'public/sub/deep/d.txt': 'deep d content ' * 10,
    'public/sub/secret.txt': 'inside-root file that happens to be called secret.txt',
    'public/file.with.dots': 'dots in name are fine ....',
    'public/..hidden': 'name starting with two dots, inside the root',
    'public/%41.txt': 'file whose name contains a literal percent sign',
    'public/public/x.txt': 'nested directory named like the root',
    # names whose suffix makes mimetypes guess an *encoding* (gzip): served bytes are still the file's bytes
    'public/notes.gz': 'not gzip at all, just called .gz - long enough to pass the compression threshold',
    'public/bundle.tar.gz': 'pretend tarball, plain bytes, also longer than twenty bytes',
    'public/drawing.svgz': '<svg>tiny</svg>',
    'public/dashboard/proxy.html': '<html>the dashboard single page app, long enough to be compressed when asked for</html>',
    'public/dashboard/app.js': 'console.log("dashboard asset")',
    # decoys: everything below must never be served nor opened
    'secret.txt': 'DECOY parent secret.txt',
    'a.txt': 'DECOY parent a.txt',
    'public-secret/x.txt': 'DECOY sibling whose name starts with the root name',
    'public-secret/a.txt': 'DECOY sibling a.txt',
    'other/sub/c.txt': 'DECOY other/sub/c.txt',
    'sub/c.txt': 'DECOY parent sub/c.txt',
}
BIG_SIZES = [65535, 65537, 1048576, 1048577, 2 * 1048576 + 5]
_state: Dict[str, Any] = {}
KEPT = b'HTTP/1.1 200 OK\r\nContent-Length: 4\r\nX-Route: keep\r\n\r\nkept'


class KeepRoute(HttpWebServerBasePlugin):
    """A web route next to the static server; its keep-alive reply leaves the connection open for follow-up requests."""

    def routes(self) -> List[Tuple[int, str]]:
        return [(httpProtocolTypes.HTTP, r'/keep$')]

    def handle_request(self, request: Any) -> None:
        self.client.queue(memoryview(KEPT))


def begin(tier: str) -> None:
    base = env.workdir('c13', str(os.getpid()))
    shutil.rmtree(base, ignore_errors=True)
    for rel, content in TREE.items():
        p = os.path.join(base, rel)
        os.makedirs(os.path.dirname(p), exist_ok=True)
        with open(p, 'wb') as f:
            f.write(('%s :: %s' % (content, rel)).encode())
    root = os.path.join(base, 'public')
    with open(os.path.join(root, 'real.gz'), 'wb') as f:
        f.write(gzip.compress(b'the payload inside a real gzip file, which is NOT what the file on disk contains', mtime=0))
    # sizes around the powers of two where buffers, chunking and compression policies change
    brng = random.Random('c13big')
    big = []
    for n in BIG_SIZES:
        rel = 'public/big-%d.dat' % n
        with open(os.path.join(base, rel), 'wb') as f:
            f.write(bytes(brng.getrandbits(8) for _ in range(4096)) * (n // 4096) + b'z' * (n % 4096))
        big.append(rel)
    _state.update(base=base, root=root)
    _state['inside'] = {}
    _state['decoys'] = {}
    for rel in list(TREE) + ['public/real.gz'] + big:
        full = os.path.join(base, rel)
        data = open(full, 'rb').read()
        (_state['inside'] if rel.startswith('public/') else _state['decoys'])[full] = data
    _state['flags'] = make_flags(['--enable-static-server', '--static-server-dir', root], cache_key='c13:' + root)
    # --enable-dashboard: documented option that turns the static server on and loads the dashboard's own route plugins next to it
    _state['flags_dashboard'] = make_flags(['--enable-dashboard', '--static-server-dir', root], cache_key='c13d:' + root)
    _state['flags_routed'] = make_flags(['--enable-static-server', '--static-server-dir', root], plugins=[KeepRoute],
                                        cache_key='c13r:' + root)


def end() -> None:
    if 'base' in _state:
        shutil.rmtree(_state['base'], ignore_errors=True)


def expected_files(path: bytes) -> List[str]:
    """Files (inside the root) the path may legitimately name: raw or percent-decoded spelling."""
    root = _state['root']
    out = []
    nq = path.split(b'?', 1)[0]
    for cand in {nq, unquote_to_bytes(nq)}:
        try:
            s = cand.decode('utf-8')
        except UnicodeDecodeError:
            continue
        if '\x00' in s:
            continue
        full = posixpath.normpath(root + s)
        if (full == root or full.startswith(root + '/')) and os.path.isfile(full):
            out.append(full)
    return out


def _inside_root(path: bytes) -> bool:
    root = _state['root']
    nq = path.split(b'?', 1)[0]
    for cand in {nq, unquote_to_bytes(nq)}:
        try:
            full = posixpath.normpath(root + cand.decode('utf-8'))
        except UnicodeDecodeError:
            return False
        if not (full == root or full.startswith(root + '/')):
            return False
    return True


def fetch(path: bytes, position: str = 'first') -> Dict[str, Any]:
    """position: 'first' = only request of its connection (static server alone); 'routed-first' = the same with a web route
    configured next to it; 'after-route' = follow-up on a keep-alive connection whose first request was answered by a route;
    'pipelined' = the same with both requests in one segment."""
    rig = StepRig(_state['flags'] if position == 'first' else _state['flags_dashboard'] if position == 'dashboard' else _state['flags_routed'], 'local')
    alog = audit.start()
    try:
        c = rig.add_client('unix')
        req = b'GET ' + path + b' HTTP/1.1\r\nHost: static.test\r\n\r\n'
        lead = b'GET /keep HTTP/1.1\r\nHost: static.test\r\n\r\n'
        skip = 0
        if position == 'after-route':
            c.send(lead)
            rig.until(lambda: len(c.rx) >= len(KEPT) or c.ended, [c], idle_timeout=0.25)
            skip = len(KEPT)
            c.send(req)
        elif position == 'pipelined':
            c.send(lead + req)
            skip = len(KEPT)
        else:
            c.send(req)
        rig.until(lambda: c.ended, [c], idle_timeout=0.25)
        audit.stop()
        opened = [a[0] for (ev, a) in alog if ev == 'open' and isinstance(a[0], (str, bytes))]
        if skip and bytes(c.rx[:skip]) != KEPT:
            return {'raw': bytes(c.rx), 'msgs': [], 'err': 'route reply missing', 'left': b'', 'ended': c.ended, 'opened': opened,
                    'died': None, 'lead_missing': True}
        msgs, err, left = h11util.parse_responses(bytes(c.rx[skip:]), [b'GET'], eof=c.ended)
        return {'raw': bytes(c.rx[skip:]), 'msgs': msgs, 'err': err, 'left': left, 'ended': c.ended, 'opened': opened, 'died': None}
    except LoopDied as e:
        return {'raw': b'', 'msgs': [], 'err': None, 'left': b'', 'ended': False, 'opened': [], 'died': e.where()}
    finally:
        audit.stop()
        rig.close()


def outcome(path: bytes, r: Dict[str, Any]) -> Tuple[str, Optional[bytes]]:
    if r['died']:
        return ('loop-died:' + r['died'], None)
    if not r['msgs']:
        return ('no-response' if not r['raw'] else 'unparseable', None)
    m = r['msgs'][0]
    body = m['body']
    if dict(m['headers']).get(b'content-encoding') == b'gzip':
        try:
            body = gzip.decompress(body)
        except Exception:
            return ('bad-gzip', None)
    return (str(m['code']), body)


def classify_path(path: bytes) -> str:
    f = []
    if b'..' in path:
        f.append('dotdot')
    if b'%2e' in path.lower():
        f.append('pct-dot')
    if b'%2f' in path.lower() or b'%5c' in path.lower() or b'\\' in path:
        f.append('pct-sep')
    if b'//' in path:
        f.append('dslash')
    if b'?' in path:
        f.append('query')
    if b'%00' in path:
        f.append('nul')
    if b'public-secret' in path:
        f.append('sibling')
    return '+'.join(f) or 'plain'


def judge(path: bytes, r: Dict[str, Any], demand_service: bool = True, routes_may_answer: bool = False) -> List[Tuple[str, Any]]:
    bad: List[Tuple[str, Any]] = []
    if r.get('lead_missing'):
        return [('route-reply-missing-before-follow-up', r['raw'][:80])]
    code, body = outcome(path, r)
    exp = expected_files(path)
    decoys = _state['decoys']
    inside = _state['inside']
    for o in r['opened']:
        try:
            full = os.path.realpath(o if isinstance(o, str) else o.decode())
        except Exception:
            continue
        if full in decoys:
            bad.append(('decoy-opened', full[len(_state['base']):]))
    if code.startswith('loop-died'):
        bad.append((code, None))
        return bad
    if code == '200':
        if body in decoys.values():
            which = [k for k, v in decoys.items() if v == body][0]
            bad.append(('served-file-outside-root', which[len(_state['base']):]))
        elif not exp and routes_may_answer and body in inside.values() and _inside_root(path):
            pass    # a route plugin answered a path that stays inside the root (a directory: its index page) with a file from inside
        elif not exp:
            bad.append(('200-for-path-naming-nothing-inside-root', (body or b'')[:60]))
        elif body not in [inside[e] for e in exp]:
            bad.append(('content-differs-from-file', (body or b'')[:60]))
    else:
        # Service is demanded only for canonical paths naming an existing file (non-vacuity of the 200 branch);
        # for every other spelling both 404 and 200-with-the-right-file are acceptable, and a path starting
        # with '//' is a scheme-relative *proxy* target that never reaches the static server at all.
        nq = path.split(b'?', 1)[0]
        canonical = demand_service and (b'%' not in nq and b'..' not in nq and b'//' not in nq and b'/./' not in nq and b'\\' not in nq
                     and not nq.endswith((b'/.', b'/')) and b'\x00' not in nq)
        if code == '404':
            if exp and canonical:
                bad.append(('404-for-existing-file', exp[0][len(_state['root']):]))
        elif code in ('unparseable', 'bad-gzip'):
            bad.append((code, r['raw'][:80]))
        elif code == 'no-response':
            if exp and canonical:
                bad.append(('no-response-for-existing-file', None))
        elif (exp and canonical) or (int(code) < 400 and not (routes_may_answer and 300 <= int(code) < 400)):
            bad.append(('unexpected-status-' + code, None))
    return bad


def run_rewrite(case: Dict[str, Any]) -> Dict[str, Any]:
    """Served content is the file's content *now*: a file is requested, rewritten (same length, same modification second -
    the way a deploy script or an editor's atomic save can leave it), requested again, and so on."""
    rng = random.Random('c13w:%s:%s' % (case['seed'], case['i']))
    viol: Dict[str, Dict[str, Any]] = {}
    obs: Dict[str, int] = {'rewrite_rounds': 0}
    name = 'live-%d-%d.%s' % (os.getpid(), case['i'], case['ext'])
    full = os.path.join(_state['root'], name)
    n = case['size']
    t0 = int(time.time()) - 5
    try:
        for rnd in range(case['rounds']):
            content = (b'v%03d:' % rnd + bytes(rng.choice(b'abcdefghijklmnopqrstuvwxyz') for _ in range(n)))[:max(n, 5)]
            how = case['how']
            if how == 'replace':
                tmp = full + '.tmp'
                with open(tmp, 'wb') as f:
                    f.write(content)
                os.utime(tmp, (t0, t0))
                os.replace(tmp, full)
            else:
                with open(full, 'wb') as f:
                    f.write(content)
                if how == 'same-second':
                    os.utime(full, (t0, t0))
            for pos in case['positions']:
                r = fetch(('/' + name).encode(), pos)
                code, body = outcome(('/' + name).encode(), r)
                obs['rewrite_rounds'] += 1
                if code != '200' or body != content:
                    key = 'served-content-differs-from-the-file-as-it-is-now|%s@%s' % (how, pos)
                    viol.setdefault(key, {'key': key, 'detail': {'round': rnd, 'status': code, 'served': (body or b'')[:12], 'file': content[:12], 'size': n}})
    finally:
        try:
            os.unlink(full)
        except OSError:
            pass
    return {'viol': list(viol.values()), 'nontrivial': True, 'sig': 'rewrite/%s/%s/%d' % (case['how'], case['ext'], n), 'obs': obs,
            'sets': {'path_classes': set(), 'outcomes': set()}, 'sample': [{'case': case}]}


def run_case(case: Dict[str, Any]) -> Dict[str, Any]:
    if case.get('kind') == 'rewrite':
        return run_rewrite(case)
    viol: Dict[str, Dict[str, Any]] = {}
    obs: Dict[str, int] = {}
    sets: Dict[str, set] = {'path_classes': set(), 'outcomes': set()}
    nontriv = 0
    sample = []
    for pt in case['paths']:
        path = pt.replace('{BASE}', _state['base']).encode('latin-1')       # (an absolute path spliced in: os.path.join would drop the root)
        r = fetch(path)
        code, body = outcome(path, r)
        cl = classify_path(path)
        sets['path_classes'].add(cl)
        sets['outcomes'].add(code)
        obs['paths'] = obs.get('paths', 0) + 1
        obs['status:' + code] = obs.get('status:' + code, 0) + 1
        obs['open_events'] = obs.get('open_events', 0) + len(r['opened'])
        if cl != 'plain':
            nontriv += 1
        if not _inside_root(path) and (b'//' in path or b'/./' in path) and b'..' in path and b'%' not in path:
            obs['climbs_out_with_noise'] = obs.get('climbs_out_with_noise', 0) + 1
        if code == '200' and body is not None and len(body) >= 65535:
            obs['big_files_served'] = obs.get('big_files_served', 0) + 1
        for (what, d) in judge(path, r):
            key = '%s|%s' % (what, cl)
            viol.setdefault(key, {'key': key, 'detail': {'path': path, 'diff': d, 'status': code}})
        if case.get('queries') and code in ('200', '404'):
            qrng = random.Random('c13q:%s:%s' % (case['seed'], pt))
            for q in [b'?', b'?x=1', b'?f=/../secret.txt', b'?a=b?c=d'] + [gen_query(qrng) for _ in range(int(case['queries']) - 1)]:
                r2 = fetch(path + q)
                o2 = outcome(path + q, r2)
                obs['query_variants'] = obs.get('query_variants', 0) + 1
                if o2 != (code, body):
                    key = 'query-changes-outcome|%s' % cl
                    viol.setdefault(key, {'key': key, 'detail': {'path': path, 'query': q, 'without': code, 'with': o2[0]}})
                for (what, d) in judge(path + q, r2):
                    key = '%s|%s+query' % (what, cl)
                    viol.setdefault(key, {'key': key, 'detail': {'path': path + q, 'diff': d}})
        for pos in case.get('positions', ()):
            # the same path asked at another position of a connection that also has a web route: confinement must hold for
            # every request, not only the first of a connection (service itself is only demanded at the first position)
            r3 = fetch(path, pos)
            c3, _b3 = outcome(path, r3)
            obs['pos:%s' % pos] = obs.get('pos:%s' % pos, 0) + 1
            obs['pos_status:%s:%s' % (pos, c3)] = obs.get('pos_status:%s:%s' % (pos, c3), 0) + 1
            for (what, d) in judge(path, r3, demand_service=(pos == 'routed-first'), routes_may_answer=(pos == 'dashboard')):
                key = '%s|%s@%s' % (what, cl, pos)
                viol.setdefault(key, {'key': key, 'detail': {'path': path, 'diff': d, 'status': c3, 'position': pos}})
        if len(sample) < 3 and cl != 'plain':
            sample.append({'path': path, 'status': code, 'opened': [str(o)[-40:] for o in r['opened'][:3]]})
    obs['nontrivial_paths'] = nontriv
    return {'viol': list(viol.values()), 'nontrivial': nontriv > 0, 'sig': str(hash(tuple(case['paths']))),
            'obs': obs, 'sets': sets, 'sample': sample or [{'path': case['paths'][0]}]}


_QTOKS = ['..', '..', '..', 'public', 'public', 'public-secret', '.', 'sub', 'a.txt', 'index.html', 'secret.txt', 'x.txt',
          '/', '//', '%2e%2e', '%2f', 'k=v', '&', '?', 'nope']


def gen_query(rng: random.Random) -> bytes:
    """'?' + a query made of path-like material (dot-segments, the root's own name, separators): the query is not part
    of the path, so none of it may influence which file is served or whether the request is confined."""
    combo = [rng.choice(_QTOKS) for _ in range(rng.randint(1, 6))]
    lead = rng.choice(['/', '/', '', 'next=', 'next=/'])
    return ('?' + lead + ''.join(_join(combo))).encode('latin-1')


def cases(tier: str, seed: int):
    depth = 3 if tier == 'quick' else 4
    block: List[str] = []
    i = 0
    toks = TOKENS

    def emit(paths: List[str], queries: int = 0, positions: Any = None) -> Dict[str, Any]:
        nonlocal i
        i += 1
        if positions is None:
            # every third block is repeated at the other positions (all blocks in the thorough tier)
            positions = ['routed-first', 'after-route', 'pipelined'] if (tier != 'quick' or i % 3 == 0 or i <= 3) else []
        return {'seed': seed, 'i': i, 'paths': paths, 'queries': queries, 'positions': positions}
    # plain existing files (non-vacuity) with query variants
    yield emit(['/notes.gz', '/bundle.tar.gz', '/drawing.svgz', '/real.gz', '/%252e%252e/secret.txt', '/..%252fsecret.txt', '/sub/%252e%252e/%252e%252e/secret.txt',
                '/%25%32%65%25%32%65/secret.txt', '/%252e%252e/public-secret/x.txt'], queries=4, positions=['routed-first', 'after-route'])
    yield emit(['/a.txt', '/index.html', '/big.bin', '/sub/c.txt', '/sub/deep/d.txt', '/sub/secret.txt', '/file.with.dots',
                '/..hidden', '/%41.txt', '/public/x.txt', '/nope', '/', '/sub', '/sub/'], queries=40)
    yield emit(['/../secret.txt', '/../a.txt', '/../public-secret/x.txt', '/sub/../../secret.txt', '/./a.txt', '/sub/../a.txt',
                '/../public/a.txt', '/%2e%2e/secret.txt', '/..%2fsecret.txt', '/../sub/c.txt', '/../other/sub/c.txt',
                '//a.txt', '/sub//c.txt', '/../public-secret/a.txt'], queries=40)
    yield emit(['/sub/../a.txt', '/./a.txt', '/sub/./c.txt', '/sub/deep/../c.txt', '/public/../a.txt', '/sub/../sub/../index.html',
                '/sub/deep/../../big.bin', '/public/./x.txt', '/sub/deep/./d.txt', '/public/../public/x.txt', '/a.txt?../x',
                '/sub/../..hidden', '/sub/../%41.txt', '/public/../file.with.dots'], queries=40)
    yield emit(['/big-%d.dat' % n for n in BIG_SIZES], queries=2, positions=['routed-first', 'after-route'])
    # climbs out of the root written the ways path resolvers disagree on: repeated separators and '.' segments (which the OS
    # ignores) in front of, between and after the '..' segments, from every depth of the tree
    srng = random.Random('c13s:%d' % seed)
    for _ in range(30 if tier == 'quick' else 600):
        yield emit([structured_climb(srng) for _ in range(40)])
    for n in range(1, depth + 1):
        for combo in itertools.product(toks, repeat=n):
            p = '/' + ''.join(t if t in ('/', '//') else t for t in _join(combo))
            block.append(p)
            if len(block) >= 40:
                yield emit(block)
                block = []
    if block:
        yield emit(block)
    wrng = random.Random('c13w:%d' % seed)
    for k in range(12 if tier == 'quick' else 200):
        i += 1
        yield {'seed': seed, 'i': i, 'kind': 'rewrite', 'how': ['same-second', 'replace', 'plain'][k % 3], 'ext': wrng.choice(['txt', 'js', 'bin', 'html']),
               'size': wrng.choice([5, 19, 21, 300, 5000]), 'rounds': 4, 'positions': ['first', 'routed-first'] if k % 2 else ['first']}
    drng = random.Random('c13d:%d' % seed)
    yield emit(['/dashboard', '/dashboard/', '/dashboard/proxy.html', '/dashboard/app.js', '/dashboard/../a.txt', '/dashboard/../../secret.txt',
                '/dashboard/../../a.txt', '/dashboard/./../../secret.txt', '/dashboard/../../secret.txt?x=1', '/dashboard/{BASE}/secret.txt', '/dashboard/x/{BASE}/secret.txt',
                '/dashboard/../../public-secret/x.txt', '/dashboard/x/../../../secret.txt', '/dashboard/%2e%2e/%2e%2e/secret.txt', '/dashboard/nope'],
               positions=['dashboard'])
    for _ in range(25 if tier == 'quick' else 600):
        paths = []
        for _ in range(40):
            combo = [drng.choice(DASH_TOKENS) for _ in range(drng.randint(2, 7))]
            paths.append('/dashboard/' + ''.join(_join(combo)))
        yield emit(paths, positions=['dashboard'])
    rng = random.Random('c13:%d' % seed)
    for _ in range(60 if tier == 'quick' else 2500):
        paths = []
        for _ in range(40):
            k = rng.randint(4, 12)
            combo = [rng.choice(toks) for _ in range(k)]
            paths.append('/' + ''.join(_join(combo)))
        yield emit(paths, queries=4 if rng.random() < 0.2 else 0)


def structured_climb(rng: random.Random) -> str:
    down = rng.choice([[], [], ['sub'], ['sub', 'deep'], ['public'], ['nope'], ['dashboard'], ['sub', 'nope']])
    ups = len(down) + rng.choice([0, 1, 1, 1, 2])
    target = rng.choice(['secret.txt', 'a.txt', 'public-secret/x.txt', 'public-secret/a.txt', 'sub/c.txt', 'other/sub/c.txt', 'public/a.txt'])
    segs = list(down) + ['..'] * ups + target.split('/')
    out = ''
    for k, sg in enumerate(segs):
        # noise the OS collapses; a leading '//' would make the target scheme-relative, so position 0 keeps one slash
        sep = rng.choice(['/', '/', '/', '//', '/./', '/.//', '//./', '///', '/././'])
        if k == 0 and sep.startswith('//'):
            sep = '/.' + sep
        out += sep + sg
    return out


def _join(combo: Any) -> List[str]:
    """Tokens are separated by '/' unless one of them already is a separator token."""
    out: List[str] = []
    prev_sep = True
    for t in combo:
        if t in ('/', '//', '%2f', '\\', '%5c'):
            out.append(t)
            prev_sep = True
        else:
            if not prev_sep:
                out.append('/')
            out.append(t)
            prev_sep = False
    return out


def floors(tier: str) -> Dict[str, int]:
    return {'paths': 3000, 'status:200': 40, 'status:404': 1000, 'nontrivial_paths': 1000, 'open_events': 1000,
            'query_variants': 1500, 'distinct:path_classes': 10,
            'climbs_out_with_noise': 300, 'big_files_served': 5,
            'pos:routed-first': 800, 'pos:after-route': 800, 'pos:pipelined': 800, 'pos:dashboard': 800, 'rewrite_rounds': 40}


if __name__ == '__main__':
    raise SystemExit(driver.main(__import__('checks.c13', fromlist=['x'])))

"""C08 — with proxy authentication on, unauthenticated requests reach nothing.

Step rig with --basic-auth <cred>: generated first requests whose Proxy-Authorization situation ranges over
absent / other schemes / exact credentials in every legal spelling / near-miss tokens (edit distance 1,
truncated, extended, re-encoded so that a lenient base64 decoder would still yield the credentials) /
parameters / duplicated lines, for every method incl. CONNECT, target form and segmentation, with 0-2 recording
plugins configured behind the auth plugin.  Observed: audit events socket.connect / socket.getaddrinfo raised
while proxy code runs, the harness resolver log, what the origin reads, what the client reads, the recording
plugins' call log.  Oracle: a reference credential predicate written from the property statement.
"""
import os
import shutil
import base64
import random
from typing import Any, Dict, List, Optional, Tuple

from rig import env, driver, shim, audit, resolver, monitors, h11util, conv, pki

env.quiet_logging()

from rig.steprig import StepRig, make_flags, LoopDied      # noqa: E402

from proxy.http.parser import HttpParser                    # noqa: E402
from proxy.http.proxy import HttpProxyBasePlugin            # noqa: E402

PROPERTY = 'C08'
LEVEL = 'exploration'
LEVEL_TEXT = ('Exploration: seeded (credential x request) cases - credentials ASCII / UTF-8 / with colons / long; requests '
              'with the header absent, other schemes (incl. pieces and decorations of the word "basic"), the exact credentials under every scheme casing, header-name casing '
              'and legal whitespace, near-miss tokens (every single-character substitution class, truncation, extension, '
              'padding variants, url-safe alphabet, case flips, junk a lenient base64 decoder ignores, non-canonical '
              'trailing bits), parameters, duplicated lines; all methods incl. CONNECT, absolute and authority targets, '
              '3 segmentations; 0-2 recording plugins after the auth plugin (with TLS interception configured as well, where '
              'do_intercept counts as a request hook); keep-alive follow-ups with and without the '
              'header. Every execution is judged against a reference predicate on what the origin, the client, the '
              'audit hook and the recording plugins observed.')
LEVEL_NOTE = ('Trusted: sys.addaudithook for connect/getaddrinfo, the harness resolver log, h11, the reference predicate in '
              'this file. Duplicated Proxy-Authorization lines with mixed validity and a TAB between scheme and token are '
              'counted but either outcome is accepted (the statement does not decide them); forwarding of credentials is '
              'judged in every served case.')
TECHNIQUE = 'runtime monitoring: audit-hook + boundary transcripts + plugin call log vs a reference credential predicate'
RULE = ('case = (credential, auth situation, method/target form, segmentation, plugins, follow-ups); non-trivial = the '
        'request carries a Proxy-Authorization line that is not byte-identical to the canonical one; distinct = situation x '
        'method x form x segmentation x plugins')
ASSUMPTIONS = ['requests are otherwise well-formed', 'credential contains no CR/LF']
SHARDS = {'quick': 8, 'thorough': 16}
BUDGET_S = {'quick': 45, 'thorough': 800}

CALLS: List[Tuple[str, str]] = []
REQUEST_HOOKS = {'before_upstream_connection', 'handle_client_request', 'handle_client_data', 'handle_upstream_chunk', 'resolve_dns',
                 'do_intercept'}
_P: Dict[str, Any] = {}


class RecA(HttpProxyBasePlugin):
    TAG = 'A'

    def resolve_dns(self, host: str, port: int) -> Tuple[Optional[str], Optional[Any]]:
        CALLS.append((self.TAG, 'resolve_dns'))
        return None, None

    def before_upstream_connection(self, request: HttpParser) -> Optional[HttpParser]:
        CALLS.append((self.TAG, 'before_upstream_connection'))
        return request

    def do_intercept(self, request: HttpParser) -> bool:
        # asked per request when TLS interception is configured; this deployment's plugin keeps tunnels opaque
        CALLS.append((self.TAG, 'do_intercept'))
        return False

    def handle_client_request(self, request: HttpParser) -> Optional[HttpParser]:
        CALLS.append((self.TAG, 'handle_client_request'))
        return request

    def handle_client_data(self, raw: memoryview) -> Optional[memoryview]:
        CALLS.append((self.TAG, 'handle_client_data'))
        return raw

    def handle_upstream_chunk(self, chunk: memoryview) -> Optional[memoryview]:
        CALLS.append((self.TAG, 'handle_upstream_chunk'))
        return chunk

    def on_upstream_connection_close(self) -> None:
        CALLS.append((self.TAG, 'on_upstream_connection_close'))

    def on_access_log(self, context: Dict[str, Any]) -> Optional[Dict[str, Any]]:
        CALLS.append((self.TAG, 'on_access_log'))
        return context


class RecB(RecA):
    TAG = 'B'


CREDS = ['user:pass', 'user:pa', 'u:p', 'admin:s3cr3t:with:colons', 'josé:contraseña', 'x' * 40 + ':' + 'y' * 57, 'a:', ':b', 'user:pass1']


def token_of(cred: str) -> bytes:
    return base64.b64encode(cred.encode('utf-8'))


def situations(rng: random.Random, cred: str) -> Dict[str, Tuple[List[bytes], str]]:
    """name -> (list of Proxy-Authorization header *values* (one line each), expected outcome)
    outcome in {'accept', 'reject', 'either'}."""
    tok = token_of(cred)
    alt = 'ABCDEFGHIJKLMNOPQRSTUVWXYZabcdefghijklmnopqrstuvwxyz0123456789+/'
    pos = rng.randrange(len(tok.rstrip(b'=')))
    ch = tok[pos:pos + 1]
    sub = rng.choice([c for c in alt if c.encode() != ch]).encode()
    sub1 = tok[:pos] + sub + tok[pos + 1:]
    flip = bytes([c ^ 0x20 if chr(c).isalpha() else c for c in tok])
    core = tok.rstrip(b'=')
    # a token whose unused trailing bits are non-zero decodes (leniently) to the same credentials
    noncanon = None
    if len(cred.encode('utf-8')) % 3 != 0:
        last = alt.index(chr(core[-1]))
        noncanon = core[:-1] + alt[last | 1].encode() + tok[len(core):]      # canonical encoding has these bits zero
        assert noncanon != tok and base64.b64decode(noncanon) == base64.b64decode(tok)
    wrongcred = token_of(cred + 'x')
    s: Dict[str, Tuple[List[bytes], str]] = {
        'absent': ([], 'reject'),
        'exact': ([b'Basic ' + tok], 'accept'),
        'scheme-lower': ([b'basic ' + tok], 'accept'),
        'scheme-upper': ([b'BASIC ' + tok], 'accept'),
        'scheme-mixed': ([b'bAsIc ' + tok], 'accept'),
        'two-spaces': ([b'Basic  ' + tok], 'accept'),
        'ows-around': ([b'  Basic ' + tok + b'  '], 'accept'),
        'tab-separator': ([b'Basic\t' + tok], 'either'),
        'bearer': ([b'Bearer ' + tok], 'reject'),
        'digest': ([b'Digest username="u", response="' + tok + b'"'], 'reject'),
        'negotiate': ([b'Negotiate ' + tok], 'reject'),
        'scheme-only': ([b'Basic'], 'reject'),
        'token-only': ([tok], 'reject'),
        'empty-value': ([b''], 'reject'),
        'basicx': ([b'Basicx ' + tok], 'reject'),
        # a scheme token that is only a piece of / contains "basic" is another scheme
        'scheme-piece': ([rng.choice([b'b', b'B', b'c', b'Bas', b'Basi', b'asic', b'sic', b'aSi', b'BASI', b'a', b'ba']) + b' ' + tok], 'reject'),
        'scheme-around': ([rng.choice([b'xBasic', b'Basic2', b'Basic,', b'Basic:', b'"Basic"', b'Basic-', b'BasicBasic', b'Basic=']) + b' ' + tok], 'reject'),
        'no-space': ([b'Basic' + tok], 'reject'),
        'substituted-char': ([b'Basic ' + sub1], 'reject'),
        'case-flipped-token': ([b'Basic ' + flip], 'reject' if flip != tok else 'accept'),
        'truncated-1': ([b'Basic ' + tok[:-1]], 'reject'),
        'truncated-half': ([b'Basic ' + tok[:len(tok) // 2]], 'reject'),
        'prefix-of-longer': ([b'Basic ' + tok + b'A'], 'reject'),
        'extended-padding': ([b'Basic ' + tok + b'='], 'reject'),
        'padding-stripped': ([b'Basic ' + core], 'reject' if core != tok else 'accept'),
        'data-after-padding': ([b'Basic ' + tok + tok[:4]], 'reject'),
        'junk-char-inside': ([b'Basic ' + tok[:4] + b'.' + tok[4:]], 'reject'),
        'junk-char-leading': ([b'Basic -' + tok], 'reject'),
        'urlsafe-alphabet': ([b'Basic ' + tok.replace(b'+', b'-').replace(b'/', b'_')], 'reject' if (b'+' in tok or b'/' in tok) else 'accept'),
        'other-credentials': ([b'Basic ' + wrongcred], 'reject'),
        'user-only': ([b'Basic ' + token_of(cred.split(':')[0])], 'reject' if ':' in cred and cred.split(':')[0] != cred else 'accept'),
        'plaintext-credentials': ([b'Basic ' + cred.encode('utf-8')], 'reject'),
        'with-parameter': ([b'Basic ' + tok + b' realm="x"'], 'reject'),
        'comma-list': ([b'Basic ' + tok + b', Basic ' + tok], 'reject'),
        'quoted-token': ([b'Basic "' + tok + b'"'], 'reject'),
        'dup-right-right': ([b'Basic ' + tok, b'Basic ' + tok], 'accept'),
        'dup-wrong-wrong': ([b'Basic ' + sub1, b'Bearer ' + tok], 'reject'),
        'dup-right-wrong': ([b'Basic ' + tok, b'Basic ' + sub1], 'either'),
        'dup-wrong-right': ([b'Basic ' + sub1, b'Basic ' + tok], 'either'),
    }
    if noncanon:
        s['noncanonical-trailing-bits'] = ([b'Basic ' + noncanon], 'reject')
    return s


SITUATION_NAMES = sorted(situations(random.Random(0), 'user:pa').keys())
NAME_CASINGS = [b'Proxy-Authorization', b'proxy-authorization', b'PROXY-AUTHORIZATION', b'pRoXy-aUtHoRiZaTiOn', b'Proxy-authorization']


# documented options that sit next to --basic-auth in a deployment; none of them changes who is let through or what of the
# credentials reaches the origin
CONFIGS = {'plain': [], 'disable-headers': ['--disable-headers', 'x-blocked,cookie'], 'disable-one': ['--disable-headers', 'user-agent'],
           'small-buffers': ['--client-recvbuf-size', '64', '--max-sendbuf-size', '64'], 'timeout': ['--timeout', '3600'],
           'web-too': ['--enable-web-server']}


def begin(tier: str) -> None:
    d = env.workdir('c08', str(os.getpid()))
    ca = pki.make_ca(d, 'interception-ca', rsa=False)
    sign_key = pki.make_key(os.path.join(d, 'signing.key'), rsa=False)
    certs = os.path.join(d, 'gen')
    os.makedirs(certs, exist_ok=True)
    _P.update({'dir': d, 'ca': ca, 'sign_key': sign_key, 'certs': certs})
    # TLS interception configured next to --basic-auth; the recording plugins answer do_intercept with False, so an
    # authenticated CONNECT is still an opaque tunnel and every other expectation of this check is unchanged
    CONFIGS['tls-intercept'] = ['--ca-key-file', ca[0], '--ca-cert-file', ca[1], '--ca-signing-key-file', sign_key, '--ca-cert-dir', certs]


def end() -> None:
    if _P.get('dir'):
        shutil.rmtree(_P['dir'], ignore_errors=True)


def flags_for(cred: str, nplug: int, cfg: str = 'plain', via: str = 'flag') -> Any:
    if cfg == 'tls-intercept':
        nplug = max(nplug, 1)
    plugins = [RecA, RecB][:nplug]
    if via == 'kw':
        # the embedding API: proxy.Proxy([...], basic_auth='user:pass') / FlagParser.initialize(basic_auth=...)
        return make_flags(list(CONFIGS[cfg]), plugins=plugins, cache_key='c08:%s:%d:%s:kw' % (cred, nplug, cfg), basic_auth=cred)
    return make_flags(['--basic-auth', cred] + CONFIGS[cfg], plugins=plugins, cache_key='c08:%s:%d:%s' % (cred, nplug, cfg))


def run_case(case: Dict[str, Any]) -> Dict[str, Any]:
    rng = random.Random('c08:%s:%s' % (case['seed'], case['i']))
    cred = CREDS[case['cred'] % len(CREDS)]
    sits = situations(random.Random('c08sit:%s:%s' % (case['seed'], case['i'])), cred)
    sit = case['situation'] if case['situation'] in sits else 'exact'
    values, expected = sits[sit]
    if case.get('cfg') == 'tls-intercept':
        case = dict(case, plugins=max(case['plugins'], 1))
    flags = flags_for(cred, case['plugins'], case.get('cfg', 'plain'), case.get('cred_via', 'flag'))
    shim.S.reset()
    del CALLS[:]
    rig = StepRig(flags, case.get('mode', 'local'))
    viol: List[Dict[str, Any]] = []
    obs: Dict[str, int] = {}
    method = case['method']
    feat = '%s|%s' % (sit, 'connect' if method == 'CONNECT' else 'http')
    tok = token_of(cred)
    try:
        origin = rig.add_origin('127.0.%d.%d' % (rng.randint(0, 250), rng.randint(2, 250)))

        def responder(req: Dict[str, Any], name: str) -> List[bytes]:
            return conv.tagged_response(rng, name, req['hd'].get(b'x-req-id', b'?').decode('latin-1'))
        ao = conv.AutoOrigin(origin, 'O', responder)
        hostname = 'auth-%d.test' % case['i']
        use_name = case.get('by_name', False)
        lookups = resolver.reset({hostname: origin.host})
        hp = (hostname.encode() + b':%d' % origin.port) if use_name else origin.hostport
        name_case = NAME_CASINGS[case['name_casing'] % len(NAME_CASINGS)]
        lines = [b'%s: %s' % (name_case if k == 0 else NAME_CASINGS[(case['name_casing'] + k) % len(NAME_CASINGS)], v) for k, v in enumerate(values)]
        extra = [b'X-Req-Id: r0', b'Accept: */*']
        hdrs = [b'Host: ' + hp] + extra
        at = rng.randint(0, len(hdrs))
        hdrs[at:at] = lines
        body = b''
        if method == 'CONNECT':
            head = b'CONNECT %s HTTP/1.1\r\n' % hp
        else:
            shape = case.get('first_shape', 'plain')
            head = b'%s http://%s/res?x=1 HTTP/%s\r\n' % (method.encode(), hp, b'1.0' if shape == 'http10-keepalive' else b'1.1')
            conn = {'http10-keepalive': b'Connection: keep-alive', 'conn-te': b'Connection: keep-alive, TE', 'conn-upgrade': b'Connection: Upgrade',
                    'conn-keepalive': b'Connection: Keep-Alive'}.get(shape)
            if conn:
                hdrs.insert(rng.randint(1, len(hdrs)), conn)
                if shape == 'conn-te':
                    hdrs.append(b'TE: trailers')
                if shape == 'conn-upgrade':
                    hdrs.append(b'Upgrade: h2c')
            if method in ('POST', 'PUT'):
                body = b'payload-%d' % case['i']
                hdrs.append(b'Content-Length: %d' % len(body))
        raw = head + b'\r\n'.join(hdrs) + b'\r\n\r\n' + body
        alog = audit.start()
        client = rig.add_client(case.get('transport', 'unix'))
        seg = case['seg']
        pieces = [raw] if seg == 'whole' else ([raw[j:j + 1] for j in range(len(raw))] if seg == 'bytes' else conv.cut_bytes(rng, raw, 2))
        for pc in pieces:
            client.send(pc)
            for _ in range(rng.randint(0, 2)):
                rig.step()
                ao.tick()

        def tick_done() -> bool:
            ao.tick()
            for c in ao.conns:
                c.send_some()
            if client.ended:
                return True
            if method == 'CONNECT':
                return b'\r\n\r\n' in client.rx
            ms, err, _ = h11util.parse_responses(bytes(client.rx), [method.encode()], eof=False)
            return bool(err) or any(m['complete'] and not m.get('interim') and m['framing'] != 'close' for m in ms)
        rig.until(tick_done, [client], idle_timeout=case.get('grace', 0.4))
        rig.settle([client], quiet=6)
        ao.tick()
        first_calls = list(CALLS)
        connects = [a for (ev, a) in alog if ev == 'socket.connect']
        gai = [a for (ev, a) in alog if ev == 'socket.getaddrinfo']
        origin_bytes = sum(len(c.peer.rx) for c in ao.conns)
        ms, err, rest = h11util.parse_responses(bytes(client.rx), [method.encode()], eof=client.eof)
        code = ms[0]['code'] if ms else None
        rejected = code == 407
        detail = {'cred': cred, 'situation': sit, 'values': values, 'method': method, 'seg': seg, 'plugins': case['plugins'],
                  'status': code, 'client_head': bytes(client.rx[:120]), 'connects': connects[:3], 'lookups': list(lookups)[:3],
                  'origin_bytes': origin_bytes, 'calls': first_calls[:12]}
        served = False
        if rejected:
            obs['outcome:407'] = 1
            if err or not ms[0]['complete'] or len(ms) != 1 or rest:
                viol.append({'key': feat + '|407-malformed', 'detail': dict(detail, err=err)})
            if not client.ended:
                viol.append({'key': feat + '|407-without-close', 'detail': detail})
            if connects or gai or lookups or ao.conns:
                viol.append({'key': feat + '|upstream-contacted-despite-407', 'detail': detail})
            if origin_bytes:
                viol.append({'key': feat + '|request-bytes-forwarded-despite-407', 'detail': detail})
            later = [c for c in first_calls if c[1] in REQUEST_HOOKS]
            if later:
                viol.append({'key': feat + '|later-plugin-hook-ran-despite-407:' + later[0][1], 'detail': detail})
            if expected == 'accept':
                viol.append({'key': feat + '|valid-credentials-rejected', 'detail': detail})
        else:
            if method == 'CONNECT':
                served = code == 200
            else:
                served = bool(ms) and code == 200 and ms[0]['complete'] and ms[0]['body'].startswith(b'O|r0|')
            if expected == 'reject':
                what = 'served' if served else 'not-rejected:%s' % code
                viol.append({'key': feat + '|unauthenticated-request-' + what, 'detail': detail})
                if connects or lookups or ao.conns:
                    viol.append({'key': feat + '|upstream-contacted-without-credentials', 'detail': detail})
            elif not served:
                viol.append({'key': feat + '|authenticated-request-not-served:%s' % code, 'detail': detail})
            else:
                obs['outcome:served'] = 1
        # credentials never reach the origin - first request and follow-ups
        if served and method != 'CONNECT':
            nfollow = case.get('followups', 0)
            for k in range(nfollow):
                fv = rng.choice([b'Basic ' + tok, b'Basic ' + tok, b'Bearer zzz', None])
                fl = [b'Host: ' + hp, b'X-Req-Id: f%d' % k]
                if fv is not None:
                    fl.insert(rng.randint(0, 2), NAME_CASINGS[rng.randrange(len(NAME_CASINGS))] + b': ' + fv)
                fraw = b'GET http://%s/follow%d HTTP/1.1\r\n' % (hp, k) + b'\r\n'.join(fl) + b'\r\n\r\n'
                before = len(client.rx)
                client.send(fraw)
                want = k + 2

                def got_n() -> bool:
                    ao.tick()
                    for c in ao.conns:
                        c.send_some()
                    m2, e2, _ = h11util.parse_responses(bytes(client.rx), [b'GET'] * 10, eof=False)
                    return client.ended or sum(1 for m in m2 if m['complete']) >= want
                rig.until(got_n, [client], idle_timeout=0.4)
                obs['followups'] = obs.get('followups', 0) + 1
            ao.tick()
        if served:
            seen = b''.join(bytes(c.peer.rx) for c in ao.conns)
            low = seen.lower()
            if b'proxy-authorization' in low:
                which = 'first' if low.count(b'proxy-authorization') and b'proxy-authorization' in low.split(b'\r\n\r\n')[0] else 'follow-up'
                viol.append({'key': '%s|credentials-forwarded-to-origin:%s' % ('connect' if method == 'CONNECT' else 'http', which),
                             'detail': dict(detail, origin_saw=seen[:300])})
            elif tok in seen and method != 'CONNECT':
                viol.append({'key': 'http|credential-token-forwarded-to-origin', 'detail': dict(detail, origin_saw=seen[:300])})
            obs['origin_requests_checked'] = sum(len(c.requests) for c in ao.conns)
        if expected == 'either':
            obs['undecided_by_statement'] = 1
        if sit in ('substituted-char', 'truncated-1', 'prefix-of-longer', 'extended-padding', 'junk-char-inside', 'junk-char-leading',
                   'noncanonical-trailing-bits', 'case-flipped-token', 'padding-stripped'):
            obs['near_miss_tokens'] = 1
    except LoopDied as e:
        viol.append({'key': '%s|loop-died:%s' % (feat, e.where()), 'detail': {'tb': e.tb[-1200:]}})
    finally:
        audit.stop()
        rig.close()
    if case.get('cfg') == 'tls-intercept' and method == 'CONNECT' and not any(v['key'].endswith('loop-died') for v in viol):
        k = 'tls-intercept:connect-' + ('rejected' if obs.get('outcome:407') else 'served' if obs.get('outcome:served') else 'other')
        obs[k] = 1
        if obs.get('outcome:served') and ('A', 'do_intercept') in CALLS:
            obs['tls-intercept:plugin-asked-on-served-connect'] = 1
    obs.update({'situation:' + sit: 1, 'method:' + method: 1, 'plugins:%d' % case['plugins']: 1, 'seg:' + case['seg']: 1,
                'cfg:' + case.get('cfg', 'plain'): 1, 'cred_via:' + case.get('cred_via', 'flag'): 1, 'first_shape:' + case.get('first_shape', 'plain'): 1})
    nontrivial = bool(values) and values != [b'Basic ' + tok]
    return {'viol': viol, 'nontrivial': nontrivial,
            'sig': '%s/%s/%s/%d/%d/%s' % (sit, method, case['seg'], case['plugins'], case['cred'], case.get('by_name')),
            'obs': obs, 'sets': {'situations': {sit}},
            'sample': {'case': case, 'values': values, 'expected': expected}}


METHODS = ['GET', 'GET', 'POST', 'PUT', 'DELETE', 'OPTIONS', 'PURGE', 'CONNECT', 'CONNECT', 'PATCH']


def cases(tier: str, seed: int):
    rng = random.Random('c08cases:%d' % seed)
    reps = 12 if tier == 'quick' else 200
    i = 0
    for rep in range(reps):
        for sit in SITUATION_NAMES + ['noncanonical-trailing-bits']:
            for k in range(3):
                i += 1
                yield {'seed': seed, 'i': i, 'situation': sit, 'cred': rng.randrange(len(CREDS)) if sit != 'noncanonical-trailing-bits' else rng.choice([1, 2, 8]),
                       'method': METHODS[(i + k) % len(METHODS)], 'seg': ['whole', 'two', 'bytes'][k],
                       'plugins': rng.choice([0, 1, 2]), 'name_casing': rng.randrange(5), 'by_name': rng.random() < 0.4,
                       'followups': rng.choice([0, 1, 3]), 'transport': rng.choice(['unix', 'tcp']),
                       'mode': rng.choice(['local', 'local', 'remote']), 'cfg': rng.choice(['plain', 'plain', 'tls-intercept'] + sorted(set(CONFIGS) | {'tls-intercept'})),
                       'first_shape': rng.choice(['plain', 'plain', 'http10-keepalive', 'conn-te', 'conn-upgrade', 'conn-keepalive']),
                       'cred_via': 'kw' if i % 4 == 0 else 'flag'}


def floors(tier: str) -> Dict[str, int]:
    return {'near_miss_tokens': 200, 'outcome:served': 150, 'outcome:407': 500, 'followups': 100, 'method:CONNECT': 100,
            'plugins:2': 30, 'distinct:situations': 35, 'origin_requests_checked': 40, 'cfg:disable-headers': 40, 'cfg:small-buffers': 40, 'cfg:tls-intercept': 80, 'tls-intercept:connect-rejected': 8, 'tls-intercept:connect-served': 3, 'cred_via:kw': 100, 'first_shape:http10-keepalive': 40}


if __name__ == '__main__':
    raise SystemExit(driver.main(__import__('checks.c08', fromlist=['x'])))

"""C16 — WebSocket frames round-trip for every size and flag combination.

Direct rig with contracts: icontract postconditions are attached (from the harness,
without editing the repository) to WebsocketFrame.build / parse / key_to_accept and
evaluated on every call the workload makes:
  build():  result == independent RFC 6455 encoder applied to the frame's fields
  parse():  fields restored, exactly one frame consumed, following bytes returned untouched
  key_to_accept(): == base64(sha1(key + GUID))  (checked against the RFC's sample vector first)
"""
import base64
import random
import hashlib
from typing import Any, Dict, List, Optional, Tuple

from rig import env, driver

env.quiet_logging()

import icontract      # noqa: E402  (installed by bin/setup into .deps, which rig.env puts on sys.path)

from proxy.http.websocket import WebsocketFrame      # noqa: E402

PROPERTY = 'C16'
LEVEL = 'exploration'
LEVEL_TEXT = ('Exploration with an exhaustive grid: 2^4 FIN/RSV combinations x 16 opcodes x {unmasked, masked with '
              'several keys} x payload lengths {0..130, 65530..65540} (thorough: complete; quick: all flag/opcode '
              'combinations at the threshold lengths), sampled larger payloads, several kinds of trailing bytes. '
              'Contracts compare every build() with an independent RFC 6455 encoder and every parse() with the fields '
              'that were encoded. The consumer of parse() remainders is driven too: a websocket route on the real web '
              'server (step rig) receives groups of 1..8 frames per read; per read, as the route saw it, the frames '
              'delivered to on_websocket_message must equal an independent decoding of that read, and the 101 reply '
              'must carry the RFC accept token.')
LEVEL_NOTE = 'Trusted: the reference encoder in this file (written from RFC 6455 5.2, validated against the RFC accept-token vector and a hand-encoded frame).'
TECHNIQUE = ('runtime contracts (icontract postconditions) on WebsocketFrame.build/parse/key_to_accept vs an independent RFC 6455 codec; '
             'per-read monitor of the frames the web server hands to a websocket route')
RULE = ('case = (payload length, masking variant, trailing-bytes kind) over a block of flag x opcode combinations; '
        'non-trivial = payload length > 0 or masked; distinct = (length, variant, trailing kind, block)')
ASSUMPTIONS = ['masking keys are supplied explicitly (a frame built without a key draws a random one and cannot be compared byte for byte)']
SHARDS = {'quick': 8, 'thorough': 16}
BUDGET_S = {'quick': 45, 'thorough': 800}
EXHAUSTIVE = {'quick': ['16 flag combos x 16 opcodes at lengths {0,1,2,124..130} x {unmasked, 2 keys}'],
              'thorough': ['16 flag combos x 16 opcodes x lengths {0..130, 65530..65540} x {unmasked, 3 keys} x 3 trailing kinds']}

GUID = b'258EAFA5-E914-47DA-95CA-C5AB0DC85B11'


class ContractBroken(Exception):
    pass


def xor_mask(payload: bytes, key: bytes) -> bytes:
    n = len(payload)
    if n == 0:
        return b''
    rep = (key * (n // 4 + 1))[:n]
    return (int.from_bytes(payload, 'big') ^ int.from_bytes(rep, 'big')).to_bytes(n, 'big')


def ref_encode(fin: bool, r1: bool, r2: bool, r3: bool, opcode: int, masked: bool, key: Optional[bytes], payload: bytes) -> bytes:
    b0 = (0x80 if fin else 0) | (0x40 if r1 else 0) | (0x20 if r2 else 0) | (0x10 if r3 else 0) | (opcode & 0x0f)
    n = len(payload)
    mbit = 0x80 if masked else 0
    if n <= 125:
        out = bytes([b0, mbit | n])
    elif n <= 0xffff:
        out = bytes([b0, mbit | 126]) + n.to_bytes(2, 'big')
    else:
        out = bytes([b0, mbit | 127]) + n.to_bytes(8, 'big')
    if masked:
        assert key is not None and len(key) == 4
        out += key + xor_mask(payload, key)
    else:
        out += payload
    return out


def ref_accept(key: bytes) -> bytes:
    return base64.b64encode(hashlib.sha1(key + GUID).digest())


# self-test of the reference (RFC 6455 1.3 and 5.7 examples)
assert ref_accept(b'dGhlIHNhbXBsZSBub25jZQ==') == b's3pPLMBiTxaQ9kYGzzhZRbK+xOo='
assert ref_encode(True, False, False, False, 1, False, None, b'Hello') == bytes.fromhex('810548656c6c6f')
assert ref_encode(True, False, False, False, 1, True, bytes.fromhex('37fa213d'), b'Hello') == bytes.fromhex('818537fa213d7f9f4d5158')

EVAL = {'build': 0, 'parse': 0, 'accept': 0}


def _fields(f: Any) -> Tuple[Any, ...]:
    return (f.fin, f.rsv1, f.rsv2, f.rsv3, f.opcode, f.masked)


def build_matches_reference(self: Any, result: bytes) -> bool:
    EVAL['build'] += 1
    exp = ref_encode(self.fin, self.rsv1, self.rsv2, self.rsv3, self.opcode, self.masked, self.mask, self.data or b'')
    return result == exp


_expect: Dict[str, Any] = {}


def parse_restores(self: Any, raw: bytes, result: bytes) -> bool:
    EVAL['parse'] += 1
    e = _expect
    if 'free' in e:
        if _WEB.get('stop'):
            return True
        # called from inside the product (the web server's frame loop): judged against the independent decoder, recorded
        # rather than raised so that the loop under observation is not cut short by the observer
        frames, _tail = ref_decode(raw, limit=1)
        if frames:
            fr = frames[0]
            good = ((self.fin, self.rsv1, self.rsv2, self.rsv3, self.opcode, self.data or b'') == fr[:6] and result == raw[fr[6]:])
            if not good:
                e['free'].append({'raw_head': raw[:16], 'len': len(raw)})
        return True
    ok = (_fields(self) == e['fields'] and (self.data or b'') == e['payload'] and result == e['trail']
          and self.payload_length == len(e['payload']))
    if e['fields'][5]:
        ok = ok and self.mask == e['key']
    return ok


def accept_matches(key: bytes, result: bytes) -> bool:
    EVAL['accept'] += 1
    return result == ref_accept(key)


_installed = False


def install() -> None:
    global _installed
    if _installed:
        return
    WebsocketFrame.build = icontract.ensure(build_matches_reference, error=ContractBroken)(WebsocketFrame.build)    # type: ignore
    WebsocketFrame.parse = icontract.ensure(parse_restores, error=ContractBroken)(WebsocketFrame.parse)            # type: ignore
    WebsocketFrame.key_to_accept = staticmethod(       # type: ignore
        icontract.ensure(accept_matches, error=ContractBroken)(WebsocketFrame.__dict__['key_to_accept'].__func__))
    _installed = True


def lenclass(n: int) -> str:
    return '0' if n == 0 else '1-125' if n <= 125 else '126-65535' if n <= 0xffff else '>=65536'


TRAILS = {'none': b'', 'random': b'\x00\xff\x81\x05trail', 'frame': ref_encode(True, False, False, False, 2, False, None, b'next')}


def run_sequence(case: Dict[str, Any]) -> Dict[str, Any]:
    """Frames are not built and parsed one per process: the product builds every server reply with WebsocketFrame.text()
    and parses every client frame with ONE frame object per connection (reset() between frames).  A frame must not depend
    on the frames built or parsed before it."""
    install()
    rng = random.Random('c16seq:%s:%s' % (case['seed'], case['i']))
    viol: Dict[str, Dict[str, Any]] = {}
    lens = case['lens']
    kind = case['kind']
    prev = None
    shared = WebsocketFrame()
    for n in lens:
        payload = bytes(rng.getrandbits(8) for _ in range(min(n, 256)))
        payload = (payload * (n // max(1, len(payload)) + 1))[:n] if n else b''
        step = '%s->%s' % (lenclass(prev) if prev is not None else 'first', lenclass(n))
        try:
            if kind == 'text':
                raw = WebsocketFrame.text(payload)
                if raw != ref_encode(True, False, False, False, 1, False, None, payload):
                    viol.setdefault('seq|text|frame-depends-on-earlier-frames', {'lens': lens, 'at': n, 'step': step, 'head': raw[:12]})
            else:
                c = rng.randrange(256)
                fin, r1, r2, r3, op = bool(c & 0x80), bool(c & 0x40), bool(c & 0x20), bool(c & 0x10), c & 0x0f
                key = bytes(rng.getrandbits(8) for _ in range(4)) if rng.random() < 0.5 else None
                if kind == 'reuse-build':
                    shared.reset()
                    shared.fin, shared.rsv1, shared.rsv2, shared.rsv3, shared.opcode = fin, r1, r2, r3, op
                    shared.masked, shared.mask, shared.data = key is not None, key, payload
                    shared.build()      # judged by the build contract
                else:
                    raw = ref_encode(fin, r1, r2, r3, op, key is not None, key, payload)
                    trail = TRAILS[rng.choice(['none', 'random', 'frame'])]
                    shared.reset()
                    _expect.update(fields=(fin, r1, r2, r3, op, key is not None), payload=payload, trail=trail, key=key)
                    shared.parse(raw + trail)
        except ContractBroken:
            viol.setdefault('seq|%s|frame-depends-on-earlier-frames' % kind, {'lens': lens, 'at': n, 'step': step})
        except Exception as e:
            viol.setdefault('seq|%s|exception:%s' % (kind, type(e).__name__), {'lens': lens, 'at': n, 'err': repr(e)})
        prev = n
    obs = {'seq_frames': len(lens), 'seq:' + kind: 1, 'contract_evals:build': EVAL['build'], 'contract_evals:parse': EVAL['parse']}
    EVAL.update(build=0, parse=0, accept=0)
    return {'viol': [{'key': k, 'detail': d} for k, d in viol.items()], 'sig': 'seq/%s/%s' % (kind, lens), 'nontrivial': True,
            'obs': obs, 'sets': {'lengths': set(lens)}, 'sample': {'kind': kind, 'lens': lens}}


def ref_decode(buf: bytes, limit: int = 0) -> Tuple[List[Tuple[Any, ...]], bytes]:
    """Independent RFC 6455 5.2 decoder: (frames, undecodable tail).  frame = (fin, r1, r2, r3, opcode, payload, size on the wire)."""
    out: List[Tuple[Any, ...]] = []
    cur = 0
    while cur < len(buf) and not (limit and len(out) >= limit):
        if len(buf) - cur < 2:
            break
        b0, b1 = buf[cur], buf[cur + 1]
        n = b1 & 0x7f
        hdr = 2
        if n == 126:
            if len(buf) - cur < 4:
                break
            n = int.from_bytes(buf[cur + 2:cur + 4], 'big')
            hdr = 4
        elif n == 127:
            if len(buf) - cur < 10:
                break
            n = int.from_bytes(buf[cur + 2:cur + 10], 'big')
            hdr = 10
        key = None
        if b1 & 0x80:
            key = buf[cur + hdr:cur + hdr + 4]
            hdr += 4
        if len(buf) - cur < hdr + n:
            break
        payload = buf[cur + hdr:cur + hdr + n]
        if key is not None:
            payload = xor_mask(payload, key)
        out.append((bool(b0 & 0x80), bool(b0 & 0x40), bool(b0 & 0x20), bool(b0 & 0x10), b0 & 0x0f, payload, hdr + n))
        cur += hdr + n
    return out, buf[cur:]


_WEB: Dict[str, Any] = {'reads': []}


def _web_plugin() -> Any:
    from proxy.http.server import HttpWebServerBasePlugin, httpProtocolTypes

    class WsRecorder(HttpWebServerBasePlugin):
        """A websocket route: records every read handed to it and every frame delivered to it."""

        def routes(self) -> List[Tuple[int, str]]:
            return [(httpProtocolTypes.WEBSOCKET, r'/ws$')]

        def handle_request(self, request: Any) -> None:
            pass

        def on_websocket_open(self) -> None:
            _WEB['open'] = _WEB.get('open', 0) + 1

        def on_client_data(self, request: Any, raw: memoryview) -> Optional[memoryview]:
            _WEB['reads'].append([bytes(raw), []])
            if ref_decode(bytes(raw))[1]:
                _WEB['stop'] = True         # a read that does not end on a frame boundary: nothing is judged from here on
            return raw

        def on_websocket_message(self, frame: WebsocketFrame) -> None:
            if _WEB['reads']:
                _WEB['reads'][-1][1].append((frame.fin, frame.rsv1, frame.rsv2, frame.rsv3, frame.opcode, bytes(frame.data or b'')))
            self.client.queue(memoryview(WebsocketFrame.text(b'ack')))
    return WsRecorder


def run_web(case: Dict[str, Any]) -> Dict[str, Any]:
    """The consumer of parse()'s remainder: the web server hands every frame of a read to the route, one call per frame, in
    order, nothing skipped and nothing decoded twice.  Judged per read as the route saw it (on_client_data), against the
    independent decoder; a read that does not consist of whole frames (the kernel split a group) ends the judged part."""
    from rig.steprig import StepRig, make_flags, LoopDied
    install()
    rng = random.Random('c16web:%s:%s' % (case['seed'], case['i']))
    viol: Dict[str, Dict[str, Any]] = {}
    obs: Dict[str, int] = {'web_cases': 1}
    if 'plugin' not in _WEB:
        _WEB['plugin'] = _web_plugin()
    flags = make_flags(['--enable-web-server'], plugins=[_WEB['plugin']], cache_key='c16web')
    _WEB['reads'] = []
    _WEB['stop'] = False
    _expect.clear()
    _expect['free'] = []
    rig = StepRig(flags, 'local')
    try:
        c = rig.add_client(case.get('transport', 'unix'))
        key = base64.b64encode(bytes(rng.getrandbits(8) for _ in range(16)))
        hs = [b'GET /ws HTTP/1.1', b'Host: ws.test', b'Upgrade: ' + rng.choice([b'websocket', b'WebSocket']), b'Connection: Upgrade',
              b'Sec-WebSocket-Key: ' + key, b'Sec-WebSocket-Version: 13']
        c.send(b'\r\n'.join(hs) + b'\r\n\r\n')
        rig.until(lambda: b'\r\n\r\n' in c.rx or c.ended, [c], idle_timeout=0.3)
        head = bytes(c.rx).split(b'\r\n\r\n')[0]
        want = base64.b64encode(hashlib.sha1(key + GUID).digest())
        got = [ln.split(b':', 1)[1].strip() for ln in head.split(b'\r\n')[1:] if ln.lower().startswith(b'sec-websocket-accept:')]
        if not head.startswith(b'HTTP/1.1 101') or got != [want]:
            viol['web|handshake-accept-token-differs-from-rfc'] = {'head': head[:200], 'want': want}
        else:
            obs['web_handshakes'] = 1
            sent = 0
            for g, group in enumerate(case['groups']):
                wire = b''
                for n in group:
                    b0 = rng.randrange(256)
                    if (b0 & 0x0f) == 8:
                        b0 ^= 0x01          # a close frame ends the conversation; every other opcode is delivered
                    payload = bytes(rng.getrandbits(8) for _ in range(min(n, 64)))
                    payload = (payload * (n // max(1, len(payload)) + 1))[:n] if n else b''
                    k = bytes(rng.getrandbits(8) for _ in range(4)) if rng.random() < 0.8 else None
                    wire += ref_encode(bool(b0 & 0x80), bool(b0 & 0x40), bool(b0 & 0x20), bool(b0 & 0x10), b0 & 0x0f, k is not None, k, payload)
                nreads = len(_WEB['reads'])
                if c.send(wire) != len(wire):
                    obs['web_groups_not_sent_whole'] = obs.get('web_groups_not_sent_whole', 0) + 1
                    break
                sent += len(wire)
                rig.until(lambda: sum(len(r[0]) for r in _WEB['reads'][nreads:]) >= len(wire) or c.ended, [c], idle_timeout=0.3)
                if c.ended:
                    break
            for ri, (raw, delivered) in enumerate(_WEB['reads']):
                frames, tail = ref_decode(raw)
                if tail:
                    obs['web_reads_not_frame_aligned'] = obs.get('web_reads_not_frame_aligned', 0) + 1
                    break
                obs['web_reads_judged'] = obs.get('web_reads_judged', 0) + 1
                obs['web_frames_judged'] = obs.get('web_frames_judged', 0) + len(frames)
                obs['web_frames_per_read:%s' % ('1' if len(frames) == 1 else '2' if len(frames) == 2 else '3+')] = \
                    obs.get('web_frames_per_read:%s' % ('1' if len(frames) == 1 else '2' if len(frames) == 2 else '3+'), 0) + 1
                if delivered != [f[:6] for f in frames]:
                    kind = 'fewer' if len(delivered) < len(frames) else 'more' if len(delivered) > len(frames) else 'different'
                    viol.setdefault('web|frames-delivered-to-route-differ-from-frames-in-read|%s' % kind,
                                    {'read': ri, 'frames_in_read': len(frames), 'delivered': len(delivered), 'lens': [len(f[5]) for f in frames],
                                     'delivered_lens': [len(f[5]) for f in delivered], 'groups': case['groups']})
                    break
            if c.ended and not _WEB['stop'] and 'web|frames-delivered-to-route-differ-from-frames-in-read' not in ''.join(viol):
                viol.setdefault('web|connection-ended-on-well-formed-frames', {'groups': case['groups'], 'reads': len(_WEB['reads'])})
        if _expect['free']:
            viol.setdefault('web|parse-inside-frame-loop-differs-from-reference', {'first': _expect['free'][0], 'groups': case['groups']})
    except LoopDied as e:
        viol['web|loop-died:%s' % e.where()] = {'tb': e.tb[-800:], 'groups': case['groups']}
    finally:
        rig.close()
        _expect.clear()
    obs.update({'contract_evals:build': EVAL['build'], 'contract_evals:parse': EVAL['parse'], 'contract_evals:accept': EVAL['accept']})
    EVAL.update(build=0, parse=0, accept=0)
    return {'viol': [{'key': k, 'detail': d} for k, d in viol.items()], 'sig': 'web/%s' % (case['groups'],), 'nontrivial': True,
            'obs': obs, 'sets': {'lengths': set(n for g in case['groups'] for n in g)}, 'sample': {'kind': 'web', 'groups': case['groups']}}


def run_case(case: Dict[str, Any]) -> Dict[str, Any]:
    if case.get('kind') == 'web':
        return run_web(case)
    if case.get('kind'):
        return run_sequence(case)
    install()
    rng = random.Random('c16:%s:%s' % (case['seed'], case['i']))
    n = case['len']
    payload = bytes(rng.getrandbits(8) for _ in range(min(n, 512)))
    payload = (payload * (n // max(1, len(payload)) + 1))[:n] if n else b''
    key = bytes.fromhex(case['key']) if case.get('key') else None
    masked = key is not None
    trail = TRAILS[case['trail']]
    viol: Dict[str, Dict[str, Any]] = {}
    combos = case['combos']
    for c in combos:
        fin, r1, r2, r3, op = bool(c & 0x80), bool(c & 0x40), bool(c & 0x20), bool(c & 0x10), c & 0x0f
        f = WebsocketFrame()
        f.fin, f.rsv1, f.rsv2, f.rsv3, f.opcode, f.masked, f.mask = fin, r1, r2, r3, op, masked, key
        f.data = payload
        lc = lenclass(n)
        mk = 'masked' if masked else 'unmasked'
        try:
            raw = f.build()
        except ContractBroken:
            viol.setdefault('build|%s|%s|encoding-differs-from-RFC6455' % (lc, mk), {'len': n, 'combo': c})
            continue
        except Exception as e:
            viol.setdefault('build|%s|%s|exception:%s' % (lc, mk, type(e).__name__), {'len': n, 'combo': c, 'err': repr(e)})
            # still exercise the decoder on a reference encoding
            raw = ref_encode(fin, r1, r2, r3, op, masked, key, payload)
        g = WebsocketFrame()
        _expect.update(fields=(fin, r1, r2, r3, op, masked), payload=payload, trail=trail, key=key)
        try:
            g.parse(raw + trail)
        except ContractBroken:
            viol.setdefault('parse|%s|%s|fields-or-remainder-wrong' % (lc, mk), {'len': n, 'combo': c, 'trail': case['trail']})
        except Exception as e:
            viol.setdefault('parse|%s|%s|exception:%s' % (lc, mk, type(e).__name__), {'len': n, 'combo': c, 'err': repr(e)})
    if case.get('accept'):
        for _ in range(50):
            k = base64.b64encode(bytes(rng.getrandbits(8) for _ in range(rng.choice([16, 16, 0, 1, 40])))) \
                if rng.random() < 0.8 else bytes(rng.getrandbits(8) for _ in range(rng.randint(0, 30)))
            if rng.random() < 0.25:
                # "for every key": keys that begin or end with bytes a tidy-minded implementation might trim or fold
                ws = [b' ', b'\t', b'\r', b'\n', b'\r\n', b'\x0b', b'\x0c', b'\x00', b'=', b'"']
                k = rng.choice(ws + [b'']) + k + rng.choice(ws + [b''])
            if rng.random() < 0.1:
                k = k.lower() if rng.random() < 0.5 else k.upper()
            try:
                WebsocketFrame.key_to_accept(k)
            except ContractBroken:
                viol.setdefault('accept|token-differs', {'key': k})
            except Exception as e:
                viol.setdefault('accept|exception:%s' % type(e).__name__, {'key': k})
    obs = {'frames': len(combos), 'contract_evals:build': EVAL['build'], 'contract_evals:parse': EVAL['parse'],
           'contract_evals:accept': EVAL['accept'], 'lenclass:' + lenclass(n): 1, 'masked' if masked else 'unmasked': 1}
    EVAL.update(build=0, parse=0, accept=0)
    return {'viol': [{'key': k, 'detail': d} for k, d in viol.items()],
            'sig': '%d/%s/%s/%d' % (n, case.get('key'), case['trail'], combos[0]), 'nontrivial': n > 0 or masked,
            'obs': obs, 'sets': {'lengths': {n}, 'combos': set(combos)},
            'sample': {'len': n, 'key': case.get('key'), 'trail': case['trail'], 'combos': combos[:8]}}


ALL = list(range(256))
KEYS = [None, '37fa213d', '00000000', 'ffffff01']


def cases(tier: str, seed: int):
    i = 0
    if tier == 'quick':
        lens = list(range(0, 131))
        keys = KEYS[:3]
    else:
        lens = list(range(0, 131))
        keys = KEYS
    for n in lens:
        for key in keys:
            for tr in (['none', 'frame'] if tier == 'quick' else ['none', 'random', 'frame']):
                i += 1
                yield {'seed': seed, 'i': i, 'len': n, 'key': key, 'trail': tr, 'combos': ALL, 'accept': (n == 0)}
    big = list(range(65530, 65541))
    for n in big:
        for key in keys:
            if tier == 'quick':
                i += 1
                yield {'seed': seed, 'i': i, 'len': n, 'key': key, 'trail': 'frame',
                       'combos': [0x81, 0x02, 0xf9, 0x70, 0x0f, 0x88, (n * 7) % 256, (n * 13 + 5) % 256]}
            else:
                for blk in range(0, 256, 16):
                    i += 1
                    yield {'seed': seed, 'i': i, 'len': n, 'key': key, 'trail': ['none', 'random', 'frame'][(blk // 16) % 3],
                           'combos': ALL[blk:blk + 16]}
    srng = random.Random('c16seq:%d' % seed)
    pool = [0, 1, 5, 32, 125, 126, 127, 300, 65535, 65536, 70000]
    for k in range(45 if tier == 'quick' else 900):
        i += 1
        yield {'seed': seed, 'i': i, 'kind': ['text', 'reuse-build', 'reuse-parse'][k % 3],
               'lens': [srng.choice(pool) if srng.random() < 0.7 else srng.randint(0, 400) for _ in range(srng.randint(2, 8))]}
    wrng = random.Random('c16web:%d' % seed)
    wpool = [0, 0, 1, 2, 5, 32, 124, 125, 126, 127, 128, 129, 300, 1000]
    for k in range(60 if tier == 'quick' else 1500):
        i += 1
        groups = []
        for _ in range(wrng.randint(1, 5)):
            if wrng.random() < 0.1:
                groups.append([wrng.choice([65535, 65536, 65537, 70000])] + [wrng.choice(wpool) for _ in range(wrng.randint(0, 2))])
            else:
                groups.append([wrng.choice(wpool) if wrng.random() < 0.8 else wrng.randint(0, 3000) for _ in range(wrng.choice([1, 2, 3, 3, 4, 5, 8]))])
        if k % 5 == 0:
            n = wrng.choice(wpool)
            groups.append([n] * wrng.choice([3, 4, 6]))       # equal frames back to back
        yield {'seed': seed, 'i': i, 'kind': 'web', 'groups': groups, 'transport': ['unix', 'tcp'][k % 2]}
    rng = random.Random('c16big:%d' % seed)
    for _ in range(4 if tier == 'quick' else 60):
        i += 1
        yield {'seed': seed, 'i': i, 'len': rng.choice([70000, 200000, 1 << 20, (1 << 22)]) if tier != 'quick' else rng.choice([70000, 131072]),
               'key': rng.choice(KEYS), 'trail': 'frame', 'combos': [rng.randrange(256)]}


def floors(tier: str) -> Dict[str, int]:
    return {'contract_evals:build': 5000, 'contract_evals:parse': 5000, 'contract_evals:accept': 100,
            'lenclass:0': 2, 'lenclass:1-125': 4, 'lenclass:126-65535': 4, 'lenclass:>=65536': 2,
            'distinct:combos': 256, 'masked': 4, 'unmasked': 4,
            'seq:text': 10, 'seq:reuse-build': 10, 'seq:reuse-parse': 10,
            'web_handshakes': 40, 'web_reads_judged': 100, 'web_frames_judged': 300, 'web_frames_per_read:3+': 40}


if __name__ == '__main__':
    raise SystemExit(driver.main(__import__('checks.c16', fromlist=['x'])))

"""C12 — the reverse proxy routes matching requests to a configured upstream, as documented.

Step rig with --enable-reverse-proxy and a generated ReverseProxyBasePlugin whose route table (static routes
with 1..3 upstream URLs, dynamic routes returning a Url or a literal response) is drawn per case.  Upstream
URLs name loopback origins by IP literal or by a *.test name (harness resolver), with or without explicit
port (no port => the origin really listens on port 80 of its own loopback address) and with or without a
path.  Observed: audit socket.connect events, what each origin read, what the client read.
Oracle: a reference router written from the documentation.
"""
import re
import random
from typing import Any, Dict, List, Optional, Tuple, Union

from rig import env, driver, shim, pki, tlsorigin, audit, resolver, monitors, h11util, conv, gen_http as G

env.quiet_logging()

from rig.steprig import StepRig, make_flags, LoopDied      # noqa: E402
from rig.peers import Origin                                # noqa: E402

from proxy.http import Url                                  # noqa: E402
from proxy.http.parser import HttpParser                    # noqa: E402
from proxy.http.server import ReverseProxyBasePlugin        # noqa: E402

PROPERTY = 'C12'
LEVEL = 'exploration'
LEVEL_TEXT = ('Exploration: seeded (route table x request) cases - tables of 1..4 routes (static with 1..3 upstream URLs, '
              'dynamic returning a Url or a literal response; URLs by IP literal or name, with/without port, with/without '
              'path and query), request paths matching none / one / several routes, methods GET/POST/PUT/DELETE/PATCH, '
              '0..6 extra headers, bodies of 0..5000 bytes, both settings of --rewrite-host-header, 1..3 requests per '
              'connection. Each execution is judged by a reference router: connect address, request line / Host / other '
              'headers / body at the origin, response bytes at the client, 404 and zero connects without a route.')
LEVEL_NOTE = ('Trusted: sys.addaudithook for connects, the strict request splitter at the origins, h11 for proxy-generated '
              'responses, the reference router in this file (first matching route in table order; re.match semantics). '
              'https upstream URLs are not generated in this check (TLS towards origins is exercised by C11).')
TECHNIQUE = 'runtime monitoring: audit-hook connects + origin/client transcripts vs a reference router over the generated route table'
RULE = ('case = (route table, request, rewrite flag); non-trivial = the path matches at least one route; distinct = table '
        'shape x match class x method x rewrite x url shape')
ASSUMPTIONS = ['route regexes are valid', 'https upstream URLs present a certificate that verifies against --ca-file']
SHARDS = {'quick': 8, 'thorough': 16}
BUDGET_S = {'quick': 45, 'thorough': 800}

_table: List[Dict[str, Any]] = []       # the running case's route table (read by the plugin at call time)
_P: Dict[str, Any] = {}


def begin(tier: str) -> None:
    # a private CA for https upstream URLs (--ca-file); leaves are made per upstream host on demand
    import os
    d = env.workdir('c12', str(os.getpid()))
    ca = pki.make_ca(d, 'upstream-ca', rsa=False)
    # one leaf for every https upstream of this process: any *.test name, and a private block of loopback addresses
    ips = ['127.99.%d.%d' % (os.getpid() % 250, k) for k in range(1, 33)]
    _P.update({'dir': d, 'ca': ca, 'ips': ips, 'leaf': pki.make_leaf(d, 'upstreams', ['*.up.test'] + ips, ca)})


def end() -> None:
    if _P.get('dir'):
        import shutil
        shutil.rmtree(_P['dir'], ignore_errors=True)




class GenRoutes(ReverseProxyBasePlugin):
    def routes(self) -> List[Union[str, Tuple[str, List[bytes]]]]:
        out: List[Union[str, Tuple[str, List[bytes]]]] = []
        for r in _table:
            if r['kind'] == 'static':
                out.append((r['regex'], list(r['urls'])))
            else:
                out.append(r['regex'])
        return out

    def handle_route(self, request: HttpParser, pattern: Any) -> Any:
        for r in _table:
            if r['kind'] != 'static' and r['regex'] == pattern.pattern:
                if r['kind'] == 'dyn-url':
                    u = Url.from_bytes(r['urls'][0])
                    if r.get('suffix'):
                        # the idiom of the shipped example plugin: parse the upstream URL, then extend its path per request
                        rid = request.header(b'x-req-id') if request.has_header(b'x-req-id') else b'?'
                        u.remainder = (u.remainder or b'/') + (b'&' if b'?' in (u.remainder or b'') else b'?') + b'rid=' + rid
                    return u
                return memoryview(r['literal'])
        raise AssertionError('no dynamic route for %r' % pattern.pattern)


REGEXES = [r'/a$', r'/a/', r'/b', r'/(c|d)/\d+$', r'/e.*', r'/a/x$', r'/b/deep/', r'/$', r'/items/[a-z]+$', r'/A$']
PATHS = ['/a', '/a/', '/a/x', '/a/x/y', '/b', '/b/deep/1', '/c/12', '/d/7', '/c/x', '/e', '/exyz', '/', '/items/abc', '/items/ABC',
         '/A', '/nothing', '/aa', '/z/a', '/a?x=1', '/b?y=/a/', '/xa$']


def flags_for(rewrite: bool) -> Any:
    return make_flags(['--enable-reverse-proxy', '--ca-file', _P['ca'][1]] + (['--rewrite-host-header'] if rewrite else []), plugins=[GenRoutes],
                      cache_key='c12:%s:%s' % (rewrite, _P['dir']))


def reference_route(table: List[Dict[str, Any]], path: bytes) -> Optional[Dict[str, Any]]:
    for r in table:
        if re.match(r['regex'], path.decode('latin-1')):
            return r
    return None


def run_early_answer(case: Dict[str, Any]) -> Dict[str, Any]:
    """The upstream answers before it has read the request (413 / 401 / 100-less refusal right after the head) and then stops
    reading, while the client is still uploading a body far larger than the socket buffers: the upstream's response is relayed
    unmodified all the same."""
    rng = random.Random('c12e:%s:%s' % (case['seed'], case['i']))
    shim.S.reset()
    flags = flags_for(case['rewrite'])
    rig = StepRig(flags, case.get('mode', 'local'))
    viol: List[Dict[str, Any]] = []
    obs: Dict[str, int] = {'early_answer_cases': 1}
    try:
        del _table[:]
        ip = '127.%d.%d.%d' % (rng.randint(1, 250), rng.randint(0, 250), rng.randint(2, 250))
        o = Origin(ip, 0)
        rig.origins.append(o)
        _table.append({'kind': 'static', 'regex': r'/up/', 'urls': [b'http://%s/store' % o.hostport], 'targets': []})
        resolver.reset({})
        client = rig.add_client(case.get('transport', 'tcp'))
        body = G.coded(b'U', case['upload'])
        raw = b'POST /up/x HTTP/1.1\r\nHost: front.example\r\nContent-Length: %d\r\n\r\n' % len(body) + body
        resp = b'HTTP/1.1 %s\r\nContent-Length: 9\r\nX-Early: 1\r\n\r\ntoo-large' % case['status'].encode()
        st: Dict[str, Any] = {'sent': 0, 'oc': None, 'answered': False}

        def tick() -> bool:
            if st['sent'] < len(raw):
                n = client.send(raw[st['sent']:st['sent'] + 262144])
                if n > 0:
                    st['sent'] += n
            if st['oc'] is None:
                st['oc'] = o.accept()
            oc = st['oc']
            if oc is not None and not st['answered']:
                oc.pump(4096)
                if b'\r\n\r\n' in oc.rx:
                    oc.send(resp)
                    st['answered'] = True       # ... and it never reads again
            client.pump()
            return len(client.rx) >= len(resp) or client.ended
        rig.until(tick, [], idle_timeout=2.0, max_stall=8.0, max_wall=60.0)
        got = bytes(client.rx)
        if not st['answered']:
            return {'viol': [], 'inconclusive': 'origin-never-saw-the-head', 'obs': obs, 'sig': 'early', 'nontrivial': True}
        if got != resp:
            viol.append({'key': 'static|early-upstream-answer|response-not-relayed-unmodified',
                         'detail': {'diff': monitors.diff_streams(resp, got), 'uploaded': st['sent'], 'upload_size': len(raw), 'client_ended': client.ended}})
        else:
            obs['early_answers_relayed'] = 1
    except LoopDied as e:
        viol.append({'key': 'early-upstream-answer|loop-died:%s' % e.where(), 'detail': {'tb': e.tb[-1000:]}})
    finally:
        rig.close()
        del _table[:]
    return {'viol': viol, 'nontrivial': True, 'sig': 'early/%s/%d' % (case['status'], case['upload']), 'obs': obs, 'sample': {'case': case}}


def run_case(case: Dict[str, Any]) -> Dict[str, Any]:
    if case.get('kind') == 'early-answer':
        return run_early_answer(case)
    rng = random.Random('c12:%s:%s' % (case['seed'], case['i']))
    shim.S.reset()
    rewrite = case['rewrite']
    flags = flags_for(rewrite)
    rig = StepRig(flags, case.get('mode', 'local'))
    viol: List[Dict[str, Any]] = []
    obs: Dict[str, int] = {}
    sets: Dict[str, set] = {'choices': set(), 'url_shapes': set(), 'match_classes': set()}
    origins: Dict[Tuple[str, int], Any] = {}
    tls_origins: List[Any] = []
    used_ips: set = set()
    sent_by_origin: Dict[str, bytes] = {}
    names: Dict[str, str] = {}
    inconclusive = None
    try:
        # ---- materialise the table: every URL gets a live origin ----
        del _table[:]
        for ri, spec in enumerate(case['routes']):
            r: Dict[str, Any] = {'kind': spec['kind'], 'regex': spec['regex'], 'urls': [], 'targets': [], 'suffix': bool(spec.get('suffix'))}
            if spec['kind'] == 'dyn-literal':
                r['literal'] = b'HTTP/1.1 200 OK\r\nContent-Length: %d\r\nX-Literal: %d\r\n\r\n' % (len(spec['body']), ri) + spec['body'].encode()
            else:
                for ui, u in enumerate(spec['urls']):
                    ip = '127.%d.%d.%d' % (rng.randint(1, 250), rng.randint(0, 250), rng.randint(2, 250))
                    tls = bool(u.get('tls'))
                    if tls:
                        ip = rng.choice([x for x in _P['ips'] if x not in used_ips])
                        used_ips.add(ip)
                    oname = 'R%dU%d' % (ri, ui)
                    host = ip
                    if u['by_name']:
                        host = 'h-%d-%d-%d.up.test' % (case['i'], ri, ui)
                        names[host] = ip

                    def responder(req: Dict[str, Any], name: str) -> List[bytes]:
                        big = int(req['hd'].get(b'x-want-bytes', b'0'))
                        pcs = conv.tagged_response(rng, name, req['hd'].get(b'x-req-id', b'?').decode('latin-1'),
                                                   framing=rng.choice(['cl', 'chunked']), pieces=rng.choice([1, 3]),
                                                   extra=rng.randbytes(big) if big else b'')
                        sent_by_origin[name] = sent_by_origin.get(name, b'') + b''.join(pcs)
                        return pcs
                    try:
                        if tls:
                            # an https upstream URL: a TLS origin (thread) presenting a certificate for the URL's host, issued by --ca-file
                            o: Any = tlsorigin.TlsOrigin(ip, 443 if not u['port'] else 0, _P['leaf'], oname, responder,
                                                         behaviour=u.get('tls_behaviour', 'whole'), delay=0.05)
                            tls_origins.append(o)
                            origins[(ip, o.port)] = o
                        else:
                            o = Origin(ip, 80 if not u['port'] else 0)
                            rig.origins.append(o)
                            origins[(ip, o.port)] = conv.AutoOrigin(o, oname, responder)
                    except OSError:
                        inconclusive = 'cannot-bind-origin'
                        raise
                    authority = host + (':%d' % o.port if u['port'] else '')
                    url = '%s://%s%s' % ('https' if tls else 'http', authority, u['path'])
                    r['urls'].append(url.encode())
                    r['targets'].append({'ip': ip, 'port': o.port, 'authority': authority.encode(),
                                         'path': (u['path'] or '/').encode(), 'name': oname})
                    if tls:
                        obs['https_upstream_urls'] = obs.get('https_upstream_urls', 0) + 1
                    sets['url_shapes'].add('%s|%s|%s|%s' % ('https' if tls else 'http', 'name' if u['by_name'] else 'ip', 'port' if u['port'] else 'noport',
                                                         'nopath' if not u['path'] else ('query' if '?' in u['path'] else 'path')))
            _table.append(r)
        lookups = resolver.reset(names)
        alog = audit.start()
        slow = case.get('reader') == 'slow'
        client = rig.add_client(case.get('transport', 'unix'), rcvbuf=8192 if slow else None)
        nconn_before = 0
        for qi, q in enumerate(case['requests']):
            path = q['path'].encode()
            rid = 'c%d-%d' % (case['i'], qi)
            hdrs = [(rng.choice([b'Host', b'Host', b'host', b'HOST', b'hOsT']), b'front.example:8899'), (b'X-Req-Id', rid.encode())] + [(k.encode(), v.encode()) for k, v in q['headers']]
            if q.get('want_bytes'):
                hdrs.append((b'X-Want-Bytes', b'%d' % q['want_bytes']))
            if q.get('last') == 'close':
                hdrs.append((rng.choice([b'Connection', b'connection']), b'close'))
            body = q['body'].encode()
            wire_body = body
            if q.get('chunked') and body and q.get('last') != 'http10':
                # the same upload as a chunked body (the reverse proxy re-encodes it in units of its own buffer size)
                hdrs.append((b'Transfer-Encoding', b'chunked'))
                lay = q['chunked']
                wire_body = b''.join(b'%x\r\n' % len(body[o:o + lay]) + body[o:o + lay] + b'\r\n' for o in range(0, len(body), lay)) + b'0\r\n\r\n'
                obs['chunked_uploads'] = obs.get('chunked_uploads', 0) + 1
            elif body or q['method'] in ('POST', 'PUT', 'PATCH'):
                hdrs.append((b'Content-Length', b'%d' % len(body)))
            rng.shuffle(hdrs)
            raw = b'%s %s HTTP/%s\r\n' % (q['method'].encode(), path, b'1.0' if q.get('last') == 'http10' else b'1.1') + b''.join(k + b': ' + v + b'\r\n' for k, v in hdrs) + b'\r\n' + wire_body
            want = reference_route(_table, path)
            mclass = 'none' if want is None else ('several' if sum(1 for r in _table if re.match(r['regex'], path.decode())) > 1 else 'one')
            sets['match_classes'].add(mclass + ':' + (want['kind'] if want else '-'))
            obs['match:' + mclass] = obs.get('match:' + mclass, 0) + 1
            feat = '%s|%s' % (want['kind'] if want else 'no-route', 'rewrite' if rewrite else 'keep-host')
            del alog[:]
            before_len = len(client.rx)
            reqs_before = {k: len(ao.all_requests()) for k, ao in origins.items()}
            for pc in conv.cut_bytes(rng, raw, q.get('ncuts', 0)):
                rest = pc
                spins = 0
                while rest and spins < 200000:      # a non-blocking send takes what fits; the remainder follows as the proxy reads
                    n = client.send(rest)
                    if n < 0:
                        break
                    rest = rest[n:]
                    rig.step()
                    spins += 1
                    if slow:
                        client.pump(4096)
                    for ao in origins.values():
                        ao.tick()

            def done() -> bool:
                for ao in origins.values():
                    ao.tick()
                    for c in ao.conns:
                        c.send_some()
                if slow:
                    if client.pump(4096):       # a client that drains a few KiB per loop iteration through a small receive buffer
                        rig.note_progress()
                if client.ended:
                    return True
                owed = sum(len(v) for v in sent_by_origin.values())
                if owed > 60000 and len(client.rx) - before_len < owed:
                    return False            # large relays: do not re-parse a megabyte per iteration
                ms, err, _ = h11util.parse_responses(bytes(client.rx[before_len:]), [q['method'].encode()], eof=False)
                return bool(err) or any(m['complete'] for m in ms)
            # origins that are threads (TLS) do their work outside the stepped loop: while one of them is busy decrypting a
            # megabyte or is not scheduled on a loaded machine, proxy and harness sockets are quiet - that is not "nothing more
            # will happen"
            grace = case.get('grace', 0.4)
            if tls_origins:
                grace = max(grace, 8.0)
            elif slow:
                grace = max(grace, 3.0)
            elif len(raw) > 60000:
                grace = max(grace, 2.0)
            # (a slow reader is pumped by done() itself, so until() cannot see its bytes moving: no stall limit then)
            finished = rig.until(done, [] if slow else [client], idle_timeout=grace,
                                 max_stall=600.0 if slow else (20.0 if tls_origins else 8.0), max_wall=240.0 if slow else (90.0 if tls_origins else 40.0))
            if not finished and rig.until_reason in ('wall', 'stall') and not client.ended:
                # bytes were still flowing when the wall-clock limit hit (loaded machine): no verdict from this case
                inconclusive = 'relay-still-in-progress-at-the-wall-limit'
                break
            rig.settle([client], quiet=4)
            for ao in origins.values():
                ao.tick()
            connects = [a for (ev, a) in alog if ev == 'socket.connect']
            got = bytes(client.rx[before_len:])
            detail = {'table': [(r['kind'], r['regex'], r.get('urls')) for r in _table], 'request': raw[:300], 'connects': connects,
                      'client_head': got[:160], 'rewrite': rewrite, 'index': qi}

            def bad(kind: str, **d: Any) -> None:
                dd = dict(detail)
                dd.update(d)
                viol.append({'key': '%s|%s' % (feat, kind), 'detail': dd})
            new_reqs = {k: ao.all_requests()[reqs_before[k]:] for k, ao in origins.items()}
            total_new = sum(len(v) for v in new_reqs.values())
            if want is None:
                ms, err, rest = h11util.parse_responses(got, [q['method'].encode()], eof=client.eof)
                if err or not ms or ms[0]['code'] != 404 or not ms[0]['complete']:
                    bad('no-404-for-unrouted-path', err=err)
                if connects or total_new:
                    bad('outbound-connection-without-route')
                obs['unrouted_checked'] = obs.get('unrouted_checked', 0) + 1
                break       # the 404 closes the connection
            if want['kind'] == 'dyn-literal':
                if got != want['literal']:
                    bad('literal-response-differs', diff=monitors.diff_streams(want['literal'], got))
                if connects or total_new:
                    bad('outbound-connection-for-literal-route')
                obs['literal_checked'] = obs.get('literal_checked', 0) + 1
                continue
            # routed to an upstream: which one?
            served = [(k, v) for k, v in new_reqs.items() if v]
            allowed = {(t['ip'], t['port']): t for t in want['targets']}
            if len(served) != 1 or len(served[0][1]) != 1:
                if not served:
                    bad('request-reached-no-upstream', origins_total={str(k): len(ao.all_requests()) for k, ao in origins.items()})
                else:
                    bad('request-reached-several-upstreams-or-twice', served=[(str(k), len(v)) for k, v in served])
                break
            (addr, reqs) = served[0]
            if addr not in allowed:
                bad('routed-to-upstream-of-another-route', got=str(addr), allowed=[str(a) for a in allowed])
                break
            t = allowed[addr]
            sets['choices'].add('%d/%d' % (want['targets'].index(t), len(want['targets'])))
            for a in connects:
                if (a[0], a[1]) not in [(x['ip'], x['port']) for x in want['targets']]:
                    bad('connect-to-address-outside-route', connect=str(a))
            oreq = reqs[0]
            if oreq['method'] != q['method'].encode():
                bad('method-changed', got=oreq['method'])
            want_path = t['path']
            if want.get('suffix'):
                want_path = want_path + (b'&' if b'?' in want_path else b'?') + b'rid=' + rid.encode()
                obs['per_request_url_suffixes_checked'] = obs.get('per_request_url_suffixes_checked', 0) + 1
            if oreq['target'] != want_path:
                bad('request-path-is-not-the-upstream-urls-path', got=oreq['target'], want=want_path)
            want_host = t['authority'] if rewrite else b'front.example:8899'
            hosts = [v for k, v in oreq['headers'] if k == b'host']
            if hosts != [want_host]:
                bad('host-header-%s' % ('not-rewritten' if rewrite else 'rewritten-although-option-off'), got=hosts, want=want_host)
            sent_h = h11util.header_multiset([(k, v) for k, v in hdrs if k.lower() != b'host'])
            got_h = h11util.header_multiset([(k, v) for k, v in oreq['headers'] if k != b'host'])
            if sent_h != got_h:
                diff = {k.decode('latin-1'): (sent_h.get(k), got_h.get(k)) for k in set(sent_h) | set(got_h) if sent_h.get(k) != got_h.get(k)}
                bad('headers-not-preserved', diff=diff)
            if oreq['body'] != body:
                bad('body-not-preserved', got_len=len(oreq['body']), want_len=len(body))
            # response relayed unmodified
            expect = sent_by_origin.get(t['name'], b'')
            sent_by_origin[t['name']] = b''
            if got != expect:
                bad('response-not-relayed-unmodified', diff=monitors.diff_streams(expect, got))
            obs['routed_checked'] = obs.get('routed_checked', 0) + 1
            if len(expect) > 131072:
                obs['large_relays_checked'] = obs.get('large_relays_checked', 0) + 1
            if len(body) > 65536:
                obs['large_uploads_checked'] = obs.get('large_uploads_checked', 0) + 1
                if origins[addr].__class__.__name__ == 'TlsOrigin':
                    obs['large_uploads_to_tls_upstream_checked'] = obs.get('large_uploads_to_tls_upstream_checked', 0) + 1
            if slow and len(expect) > 20000:
                obs['slow_reader_relays_checked'] = obs.get('slow_reader_relays_checked', 0) + 1
            if q.get('last') and qi > 0:
                obs['nonkeepalive_followups_checked'] = obs.get('nonkeepalive_followups_checked', 0) + 1
                prev = reference_route(_table, case['requests'][qi - 1]['path'].encode())
                if prev is not None and prev['kind'] == 'dyn-literal':
                    obs['nonkeepalive_after_literal_checked'] = obs.get('nonkeepalive_after_literal_checked', 0) + 1
            if viol:
                break
    except LoopDied as e:
        viol.append({'key': 'loop-died:%s' % e.where(), 'detail': {'tb': e.tb[-1200:], 'routes': case['routes']}})
    except OSError:
        if not inconclusive:
            raise
    finally:
        audit.stop()
        for o_ in tls_origins:
            o_.close()
        rig.close()
        del _table[:]
    obs['rewrite:%s' % rewrite] = 1
    nontrivial = any(k.startswith('match:') and not k.endswith('none') for k in obs)
    seen = set()
    uniq = []
    for v in viol:
        if v['key'] not in seen:
            seen.add(v['key'])
            uniq.append(v)
    return {'viol': uniq, 'nontrivial': nontrivial, 'inconclusive': inconclusive,
            'sig': '%s/%s/%s' % ([(r['kind'], r['regex'], len(r.get('urls', []))) for r in case['routes']], [(q['method'], q['path']) for q in case['requests']], rewrite),
            'obs': obs, 'sets': sets, 'sample': {'case': case}}


def cases(tier: str, seed: int):
    rng = random.Random('c12cases:%d' % seed)
    n = 2500 if tier == 'quick' else 40000
    for k in range(8 if tier == 'quick' else 80):
        yield {'seed': seed, 'i': 900000 + k, 'kind': 'early-answer', 'upload': [8 << 20, 12 << 20][k % 2], 'status': [b'413 Payload Too Large', b'401 Unauthorized'][k % 2].decode(),
               'rewrite': k % 2 == 0, 'transport': ['tcp', 'unix'][k % 2], 'mode': 'local' if k % 3 else 'remote'}
    for i in range(n):
        routes = []
        used = set()
        for _ in range(rng.randint(1, 4)):
            rx = rng.choice(REGEXES)
            if rx in used:
                continue
            used.add(rx)
            kind = rng.choice(['static', 'static', 'static', 'dyn-url', 'dyn-literal'])
            spec: Dict[str, Any] = {'kind': kind, 'regex': rx, 'suffix': kind == 'dyn-url' and rng.random() < 0.5}
            if kind == 'dyn-literal':
                spec['body'] = 'literal-%d-' % i + 'L' * rng.choice([0, 5, 300])
            else:
                spec['urls'] = [{'by_name': rng.random() < 0.4, 'port': rng.random() < 0.7, 'tls': rng.random() < 0.25,
                                 'tls_behaviour': rng.choice(['whole', 'whole', 'split', 'late']),
                                 'path': rng.choice(['', '/', '/base', '/base/x.json', '/get?fixed=1', '/deep/er/path/'])}
                                for _ in range(1 if kind == 'dyn-url' else rng.randint(1, 3))]
            routes.append(spec)
        reqs = []
        for _ in range(rng.choice([1, 1, 2, 3])):
            method = rng.choice(['GET', 'GET', 'POST', 'PUT', 'DELETE', 'PATCH'])
            if rng.random() < 0.06:
                method = rng.choice(['get', 'Purge', 'Report', 'm-search', 'Delete'])     # case-sensitive tokens, forwarded as sent
            hs = []
            for k in range(rng.randint(0, 6)):
                hs.append(('X-H%d-%s' % (k, G.token(rng, 1, 5).decode()), G.header_value(rng).decode('latin-1')))
            if rng.random() < 0.3:
                hs.append(('User-Agent', 'c12/1.0'))
            if rng.random() < 0.3:
                hs.append(('accept-ENCODING', 'gzip, br'))
            body = '' if method in ('GET', 'DELETE') and rng.random() < 0.8 else 'b' * rng.choice([0, 1, 40, 5000])
            nmatch = {p: sum(1 for r in routes if re.match(r['regex'], p)) for p in PATHS}
            pool = {'none': [p for p in PATHS if nmatch[p] == 0], 'one': [p for p in PATHS if nmatch[p] == 1],
                    'several': [p for p in PATHS if nmatch[p] > 1]}
            cls = rng.choice(['none', 'one', 'one', 'one', 'several', 'several'])
            path = rng.choice(pool[cls] or pool['one'] or PATHS)
            reqs.append({'method': method, 'path': path, 'headers': hs, 'body': body, 'ncuts': rng.choice([0, 0, 2])})
        reader = 'eager'
        shape = i % 25
        if shape in (4, 5):
            # request bodies beyond one upstream flush (64 KiB), towards plain and TLS upstreams
            for q in reqs:
                if q['method'] in ('POST', 'PUT', 'PATCH'):
                    q['body'] = 'B' * rng.choice([65535, 65537, 131072, 140000, 262144, 1 << 20])
                    if rng.random() < 0.5:
                        q['chunked'] = rng.choice([4096, 65536, 100000, 131072, 1 << 20])
            if shape == 5:
                for r_ in routes:
                    for u_ in r_.get('urls', []):
                        u_['tls'] = True
        if shape in (0, 1):
            # large and slowly drained relays: more upstream data arrives while earlier data is still queued for the client
            reader = 'slow' if shape == 1 else 'eager'
            for q in reqs:
                q['want_bytes'] = rng.choice([30000, 70000, 140000, 200000, 300000] + ([1 << 20] if tier != 'quick' or rng.random() < 0.3 else []))
        elif shape in (2, 3):
            # a literal answer followed by a non-keep-alive request for an upstream route (and the other way round)
            routes = [{'kind': 'dyn-literal', 'regex': r'/items/[a-z]+$', 'body': 'literal-%d-' % i + 'L' * rng.choice([0, 300])},
                      {'kind': rng.choice(['static', 'dyn-url']), 'regex': r'/a/',
                       'urls': [{'by_name': False, 'port': True, 'tls': rng.random() < 0.3, 'path': rng.choice(['', '/base', '/get?fixed=1'])}]}]
            rng.shuffle(routes)
            seq = ['/items/abc', '/a/x'] if shape == 2 else ['/a/x', '/items/abc', '/a/x/y']
            reqs = [{'method': rng.choice(['GET', 'POST']), 'path': p, 'headers': [], 'body': '', 'ncuts': rng.choice([0, 2])} for p in seq]
        if rng.random() < 0.3 or shape in (2, 3):
            reqs[-1]['last'] = rng.choice(['close', 'http10'])
        yield {'seed': seed, 'i': i, 'routes': routes, 'requests': reqs, 'rewrite': i % 2 == 0, 'reader': reader,
               'transport': rng.choice(['unix', 'tcp']), 'mode': rng.choice(['local', 'local', 'remote'])}


def floors(tier: str) -> Dict[str, int]:
    return {'routed_checked': 300, 'unrouted_checked': 100, 'literal_checked': 30, 'match:several': 30, 'rewrite:True': 100,
            'rewrite:False': 100, 'distinct:url_shapes': 8, 'distinct:choices': 4,
            'large_relays_checked': 20, 'slow_reader_relays_checked': 15, 'nonkeepalive_followups_checked': 60,
            'nonkeepalive_after_literal_checked': 30, 'https_upstream_urls': 100, 'large_uploads_checked': 20, 'large_uploads_to_tls_upstream_checked': 8, 'early_answers_relayed': 5, 'per_request_url_suffixes_checked': 60}


if __name__ == '__main__':
    raise SystemExit(driver.main(__import__('checks.c12', fromlist=['x'])))

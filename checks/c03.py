"""C03 — incremental HTTP parsing does not depend on how input is segmented.

Direct rig: the real HttpParser (both types) and ChunkParser are fed generated
self-delimiting messages followed by trailing bytes under enumerated / random
cuttings.  After *every* parse() call a monitor compares completion status with
the generator's ground truth (message length L); at the end the observable state
is compared with the one-piece run and the remainder with the trailing bytes.
"""
import zlib
import random
import itertools
from typing import Any, Dict, List, Optional, Tuple

from rig import env, driver, gen_http as G

env.quiet_logging()

from proxy.http.parser import HttpParser, httpParserTypes, ChunkParser, chunkParserStates  # noqa: E402

PROPERTY = 'C03'
LEVEL = 'exploration'
RULE = ('cases = generated self-delimiting HTTP messages (request/response x Content-Length/chunked/body-less/'
        'header-less, chunk layouts, optional extensions/trailers) + trailing bytes, each run under a cutting plan '
        '(all 2-piece cuts, 1-byte pieces, all 3-piece cuts for short messages, random k-piece); a case is '
        'non-trivial when it made >=2 parse() calls on a message with >=1 header or a body; distinct = message '
        'class x plan x message hash')
LEVEL_TEXT = ('Exploration with exhaustive sub-spaces: every 2-piece cut and the 1-byte cutting of every generated '
              'message, all 3-piece cuts of short ones, random k-piece cuts; a monitor checks completion against the '
              'generator-known message length after every parse() call. Decides the property on the executions '
              'produced; the parser is pure so no schedule dimension is missed.')
LEVEL_NOTE = 'Trusted: the message generator emits valid framing and knows L and the decoded body; h11 is not needed here.'
TECHNIQUE = 'runtime monitor on HttpParser.parse/ChunkParser.parse (per-call completion oracle + final-state differential vs one-piece run)'
ASSUMPTIONS = ['ground truth length L and decoded body come from the generator (rig/gen_http.py), which emits only '
               'RFC 9112-valid framing', 'close-delimited messages and body-less messages with trailing bytes are '
               'outside the quantifier and not generated']
SHARDS = {'quick': 8, 'thorough': 16}
BUDGET_S = {'quick': 40, 'thorough': 700}
EXHAUSTIVE = {'quick': ['all 2-piece cuts of every generated message', '1-byte pieces of every generated message'],
              'thorough': ['all 2-piece cuts of every generated message', '1-byte pieces of every message',
                           'all 3-piece cuts of every message <= 120 bytes']}

CLASSES = [
    ('req', 'none'), ('req', 'cl'), ('req', 'cl0'), ('req', 'chunked'), ('req', 'chunked-ext'),
    ('req', 'chunked-trailers'), ('req', 'connect'),
    ('resp', 'headerless'), ('resp', 'cl'), ('resp', 'cl0'), ('resp', 'chunked'), ('resp', 'chunked-ext'),
    ('resp', 'chunked-trailers'),
    ('chunkparser', 'chunked'), ('chunkparser', 'chunked-ext'), ('chunkparser', 'chunked-trailers'),
]
TRAILS = [b'', b'X', b'\r\n', b'GET /next HTTP/1.1\r\nHost: n\r\n\r\n', b'0\r\n\r\n', b'\x00\xff\xfe garbage',
          b'HTTP/1.1 200 OK\r\nContent-Length: 0\r\n\r\n', b'\n']


def make(case: Dict[str, Any]) -> Tuple[G.Msg, bytes]:
    rng = random.Random('c03:%s:%s' % (case['seed'], case['i']))
    kind, fr = case['cls']
    small = case.get('small', False)
    sizes = [0, 1, 2, 5, 17] if small else [0, 1, 2, 5, 17, 64, 300]
    nh = rng.randint(0, 2) if small else None
    if kind == 'req':
        if fr == 'connect':
            m = G.gen_request(rng, target=b'host.test:443', host_header=None, method=b'CONNECT', framing='none',
                              nheaders=rng.randint(0, 2))
        else:
            form = rng.choice(['origin', 'absolute'])
            target = b'/p/' + G.token(rng) + b'?q=1' if form == 'origin' else b'http://h.test:8080/x/' + G.token(rng)
            framing = {'none': 'none', 'cl': 'cl', 'cl0': 'cl'}.get(fr, 'chunked')
            body = None
            if fr == 'cl0':
                body = b''
            elif fr == 'cl':
                body = G.body_bytes(rng, rng.choice(sizes[1:]))
            elif framing == 'chunked':
                body = G.body_bytes(rng, rng.choice(sizes))
            m = G.gen_request(rng, target=target, host_header=b'h.test', framing=framing, body=body, nheaders=nh,
                              ext=(fr == 'chunked-ext'), trailers=(fr == 'chunked-trailers'))
    elif kind == 'resp':
        if fr == 'headerless':
            m = G.gen_response(rng, headerless=True, code=200)
        else:
            framing = {'cl': 'cl', 'cl0': 'cl'}.get(fr, 'chunked')
            body = b'' if fr == 'cl0' else G.body_bytes(rng, rng.choice(sizes[1:] if fr == 'cl' else sizes))
            m = G.gen_response(rng, framing=framing, body=body, nheaders=nh, ext=(fr == 'chunked-ext'),
                               trailers=(fr == 'chunked-trailers'))
    else:
        full = G.gen_response(rng, framing='chunked', body=G.body_bytes(rng, rng.choice(sizes)), nheaders=0,
                              ext=(fr == 'chunked-ext'), trailers=(fr == 'chunked-trailers'), plain=True)
        # strip the head: keep the chunked stream only, re-base the zones
        start = [z for z in full.zones if z[2] == 'blank-line'][0][1]
        m = full
        m.zones = [(s - start, e - start, n) for (s, e, n) in full.zones if s >= start]
        m.raw = full.raw[start:]
    if fr in ('none', 'headerless', 'connect'):
        trail = b''     # quantifier: body-less messages only without trailing bytes
    else:
        trail = TRAILS[case['trail'] % len(TRAILS)]
    return m, trail


def snapshot(p: HttpParser) -> Dict[str, Any]:
    return {
        'complete': p.is_complete, 'method': p.method, 'host': p.host, 'port': p.port, 'path': p.path,
        'version': p.version, 'code': p.code, 'reason': p.reason,
        'headers': None if p.headers is None else {k: tuple(v) for k, v in p.headers.items()},
        'body': p.body or b'', 'chunked': p.is_chunked_encoded,
        'remainder': bytes(p.buffer) if p.buffer else b'',
    }


class Feed:
    """Feeds pieces to a fresh parser and monitors completion after every call."""

    def __init__(self, kind: str, L: int) -> None:
        self.kind, self.L = kind, L
        self.anoms: List[Tuple[str, int]] = []
        self.calls = 0

    def run(self, pieces: List[bytes]) -> Optional[Dict[str, Any]]:
        fed = 0
        if self.kind == 'chunkparser':
            cp = ChunkParser()
            rem = b''
            try:
                for pc in pieces:
                    out = cp.parse(memoryview(pc))
                    self.calls += 1
                    fed += len(pc)
                    done = cp.state == chunkParserStates.COMPLETE
                    rem += bytes(out)
                    if done and fed < self.L:
                        self.anoms.append(('early-complete', fed))
                    if not done and fed >= self.L:
                        self.anoms.append(('not-complete-at-L', fed))
                    if not done and len(out):
                        self.anoms.append(('remainder-before-complete', fed))
            except Exception as e:
                self.anoms.append(('exception:' + type(e).__name__, fed))
                return None
            return {'complete': cp.state == chunkParserStates.COMPLETE, 'body': cp.body, 'remainder': rem,
                    'parked': b'' if cp.state != chunkParserStates.COMPLETE else cp.chunk}
        p = HttpParser(httpParserTypes.REQUEST_PARSER if self.kind == 'req' else httpParserTypes.RESPONSE_PARSER)
        try:
            for pc in pieces:
                p.parse(memoryview(pc))
                self.calls += 1
                fed += len(pc)
                if p.is_complete and fed < self.L:
                    self.anoms.append(('early-complete', fed))
                if not p.is_complete and fed >= self.L:
                    self.anoms.append(('not-complete-at-L', fed))
        except Exception as e:
            self.anoms.append(('exception:' + type(e).__name__, fed))
            return None
        return snapshot(p)


def judge(kind: str, m: G.Msg, trail: bytes, cuts: List[int], ref: Optional[Dict[str, Any]]) -> Tuple[List[str], int]:
    """Returns failure kinds for this cutting (deduplicated, ordered) and the number of parse calls."""
    data = m.raw + trail
    f = Feed(kind, len(m.raw))
    snap = f.run(G.cut_at(data, cuts))
    kinds: List[str] = []
    for (k, _) in f.anoms:
        if k not in kinds:
            kinds.append(k)
    if snap is not None:
        if snap.get('complete') and snap['remainder'] != trail:
            kinds.append('remainder-wrong')
        if snap.get('complete') and snap['body'] != m.body:
            kinds.append('body-wrong')
        if snap.get('parked'):
            kinds.append('bytes-parked-after-complete')
        if ref is not None and cuts:
            diff = sorted(k for k in snap if snap[k] != ref.get(k))
            if diff:
                kinds.append('state-differs-from-one-piece:' + ','.join(diff))
    return kinds, f.calls


def minimise(kind: str, m: G.Msg, trail: bytes, cuts: List[int], fk: str, ref: Optional[Dict[str, Any]]) -> List[int]:
    cur = list(cuts)
    changed = True
    while changed and cur:
        changed = False
        for c in list(cur):
            trial = [x for x in cur if x != c]
            kinds, _ = judge(kind, m, trail, trial, ref)
            if fk in kinds:
                cur = trial
                changed = True
                break
    return cur


def plans(case: Dict[str, Any], n: int, rng: random.Random):
    plan = case['plan']
    if plan == 'all2':
        yield []
        for c in range(1, n):
            yield [c]
    elif plan == 'bytes':
        yield list(range(1, n))
    elif plan == 'all3':
        if n > 120:
            return
        for a, b in itertools.combinations(range(1, n), 2):
            yield [a, b]
    elif plan == 'rand':
        for _ in range(case.get('nrand', 40)):
            yield G.random_cuts(rng, n, rng.randint(2, 9))


def run_case(case: Dict[str, Any]) -> Dict[str, Any]:
    m, trail = make(case)
    kind, fr = case['cls']
    data = m.raw + trail
    rng = random.Random('c03plan:%s:%s' % (case['seed'], case['i']))
    ref_kinds, calls = judge(kind, m, trail, [], None)
    f0 = Feed(kind, len(m.raw))
    ref = f0.run([data])
    viol: Dict[str, Dict[str, Any]] = {}
    ncut = 0
    maxpieces = 1
    for cuts in plans(case, len(data), rng):
        kinds, c = judge(kind, m, trail, cuts, ref)
        calls += c
        ncut += 1
        maxpieces = max(maxpieces, len(cuts) + 1)
        for fk in kinds:
            mc = minimise(kind, m, trail, cuts, fk, ref) if len(cuts) > 1 else cuts
            zones = '+'.join(m.zone_at(x) if x <= len(m.raw) else 'in:trailing' for x in mc) or 'whole'
            if fk.startswith('state-differs'):
                key = '%s|%s|%s|cut@%s' % (kind, fr, fk, zones)
            else:
                key = '%s|%s|%s|cut@%s' % (kind, fr, fk, zones)
            if trail and fk in ('remainder-wrong',) and zones == 'whole':
                key += '|trail'
            if key not in viol:
                viol[key] = {'key': key, 'detail': {'message': data, 'L': len(m.raw), 'cuts': mc,
                                                    'failure': fk, 'msg': m.describe()}}
    nontrivial = calls >= 2 and (len(m.headers) > 0 or len(m.body) > 0 or kind == 'chunkparser')
    return {
        'viol': list(viol.values()),
        'sig': '%s/%s/%s/%s' % (kind, fr, case['plan'], zlib.crc32(data)),
        'nontrivial': nontrivial,
        'obs': {'parse_calls_monitored': calls, 'cuttings': ncut, 'cell:%s-%s' % (kind, fr): 1,
                'plan:' + case['plan']: 1, 'with_trailing': 1 if trail else 0},
        'sets': {'zones_cut': {m.zone_at(x) for x in range(1, len(m.raw))} if case['plan'] in ('all2', 'bytes') else set()},
        'sample': {'class': case['cls'], 'plan': case['plan'], 'message': data, 'L': len(m.raw),
                   'cuttings_run': ncut, 'max_pieces': maxpieces},
    }


def cases(tier: str, seed: int):
    per_cell = 120 if tier == 'quick' else 1500
    i = 0
    for rep in range(per_cell):
        for cls in CLASSES:
            i += 1
            base = {'seed': seed, 'i': i, 'cls': list(cls), 'trail': rep}
            yield dict(base, plan='all2')
            yield dict(base, plan='bytes')
            if tier == 'quick':
                if rep < 40:
                    yield dict(base, plan='rand', nrand=25)
                if rep < 10:
                    yield dict(base, plan='all3', small=True)
            else:
                yield dict(base, plan='rand', nrand=60)
                if rep < 150:
                    yield dict(base, plan='all3', small=True)


def floors(tier: str) -> Dict[str, int]:
    fl = {'parse_calls_monitored': 20000 if tier == 'quick' else 2000000, 'distinct_nontrivial': 100,
          'distinct:zones_cut': 20}
    for (k, fr) in CLASSES:
        fl['cell:%s-%s' % (k, fr)] = 20
    return fl


if __name__ == '__main__':
    raise SystemExit(driver.main(__import__('checks.c03', fromlist=['x'])))

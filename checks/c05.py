"""C05 — one connection cannot take down or stall the executor serving the others.

Step rig (local and remote executor): ONE real executor loop serves an *adversarial* connection and
well-behaved *canary* connections at the same time.  The adversary is drawn from: every prefix of a valid
conversation in each role (forward, tunnel, web, reverse) followed by close / reset / silence; arbitrary and
mutated byte strings (generators of checks/c06.py); misbehaving upstreams (refusing, unresolvable, reset or
close mid-response, garbage, bad chunk size, bad Content-Length); client abort while a large response is
queued; and every errno the socket layer can raise at every I/O call of the adversary's own sockets
(fault enumeration through the socket shim, filtered to the adversary's sockets).
Oracle: (a) no exception ever escapes the loop and no iteration stalls; (b) a canary running concurrently and
a fresh canary started after the adversary ended both produce exactly the transcript the same canary
produces when it runs alone (client-side bytes and origin-side bytes, ports normalised).
"""
import random
from typing import Any, Dict, List, Optional, Tuple

from rig import env, driver, shim, monitors, h11util, conv, resolver, adversary, gen_http as G

env.quiet_logging()

from rig.steprig import StepRig, make_flags, LoopDied      # noqa: E402
from rig.peers import refused_port                          # noqa: E402
from checks import c04, c06                                 # noqa: E402  (route plugins, byte-string generators)

PROPERTY = 'C05'
LEVEL = 'fault_enumeration'
LEVEL_TEXT = ('Fault enumeration + exploration: adversary = {every prefix x {close, reset, silence} of 5 role scripts; c06 byte '
              'strings; 9 upstream misbehaviours; client abort with queued output; every (call kind, call index, errno) of '
              'the fault-free run of each role script, restricted to the adversary\'s sockets} interleaved by a seeded '
              'scheduler with a concurrent canary and followed by a fresh canary, on the local and the remote executor. '
              'Judged by loop survival and by equality of canary transcripts with their run-alone baseline.')
LEVEL_NOTE = ('Trusted: the socket shim injects only errnos a real socket can raise at that call; canary baselines are recorded '
              'on the same tree in the same process; transcripts are compared after replacing ephemeral ports. A bounded '
              'block inside connect() (<= --timeout) is reported as a measurement, not a violation; adversaries that need a '
              'TLS handshake are out of scope here (C11).')
TECHNIQUE = 'runtime monitoring with fault injection: loop-survival monitor + differential canary transcripts (alone vs beside an adversary) under a seeded scheduler'
RULE = ('case = (adversary class and parameters, canary kind, schedule seed, executor mode); non-trivial = adversary and '
        'canary works were registered with the executor at the same time; distinct = adversary signature x canary x mode')
ASSUMPTIONS = ['the canary is a well-formed conversation with a well-behaved origin']
SHARDS = {'quick': 8, 'thorough': 16}
BUDGET_S = {'quick': 45, 'thorough': 800}

_base: Dict[str, Any] = {}


def flags_all() -> Any:
    return make_flags(['--enable-web-server', '--enable-reverse-proxy'], plugins=[c04.RouteA, c04.RouteB, c04.Rev], cache_key='c05:all')


class Canary:
    """A well-behaved conversation: two keep-alive requests (or a tunnel echo) with its own origin."""

    def __init__(self, rig: StepRig, kind: str, rng: random.Random, tag: str, transport: Optional[str] = None) -> None:
        self.rig, self.kind, self.tag = rig, kind, tag
        self.origin = rig.add_origin('127.0.%d.%d' % (rng.randint(0, 250), rng.randint(2, 250))) if kind != 'web' else None
        self.ao: Optional[conv.AutoOrigin] = None
        if self.origin is not None and kind != 'tunnel':
            self.ao = conv.AutoOrigin(self.origin, 'CN', lambda req, name: [b'HTTP/1.1 200 OK\r\nContent-Length: 9\r\nX-Canary: %s\r\n\r\n' % req['hd'].get(b'x-req-id', b'?') + b'canary-ok'])
        if kind == 'reverse':
            c04._routes['B'] = b'http://%s/pb' % self.origin.hostport      # canary uses route /rb/, adversary /ra/
        # the canary arrives over a unix socket, an IPv4 or an IPv6 listener
        self.client = rig.add_client(transport or rng.choice(['unix', 'unix', 'tcp', 'tcp6']))
        self.stage = 0
        self.oc: Any = None
        self.done = False
        self.hold = False       # while set, the canary's origin does not answer (requests stay unanswered upstream)
        hp = self.origin.hostport if self.origin is not None else b''
        if kind == 'forward':
            self.reqs = [b'GET http://%s/c%d HTTP/1.1\r\nHost: %s\r\nX-Req-Id: k%d\r\n\r\n' % (hp, k, hp, k) for k in range(2)]
        elif kind == 'web':
            self.reqs = [b'GET /wb/c%d HTTP/1.1\r\nHost: w.test\r\nX-Req-Id: k%d\r\n\r\n' % (k, k) for k in range(2)]
        elif kind == 'reverse':
            self.reqs = [b'GET /rb/c%d HTTP/1.1\r\nHost: r.test\r\nX-Req-Id: k%d\r\n\r\n' % (k, k) for k in range(2)]
        else:
            self.reqs = [b'CONNECT %s HTTP/1.1\r\nHost: %s\r\n\r\n' % (hp, hp)]
            self.payload = [b'ping-%d;' % k * 40 for k in range(3)]

    def enabled(self) -> bool:
        return not self.done

    def act(self) -> None:
        """one causally ordered step of the conversation"""
        c = self.client
        c.pump()
        if self.ao is not None and not self.hold:
            self.ao.tick()
            for oc in self.ao.conns:
                oc.send_some()
        if self.kind == 'tunnel':
            if self.hold and self.stage >= 2:
                return
            if self.stage == 0:
                c.send(self.reqs[0])
                self.stage = 1
            elif self.stage == 1:
                if self.oc is None:
                    self.oc = self.origin.accept()
                if self.oc is not None and b'\r\n\r\n' in c.rx:
                    self.stage = 2
                    self.sent = 0
            elif 2 <= self.stage < 2 + len(self.payload):
                k = self.stage - 2
                if self.sent == k:
                    c.send(self.payload[k])
                    self.sent += 1
                self.oc.pump()
                want = b''.join(self.payload[:k + 1])
                if bytes(self.oc.rx) == want:
                    self.oc.send(b'echo:' + self.payload[k])
                    self.stage += 1
            else:
                want_c = b''.join(b'echo:' + p for p in self.payload)
                if bytes(c.rx).endswith(want_c) or c.ended:
                    self.done = True
            if c.ended:
                self.done = True
            return
        n = responses_complete(bytes(c.rx))
        if self.stage < len(self.reqs) and n >= self.stage:
            c.send(self.reqs[self.stage])
            self.stage += 1
        elif n >= len(self.reqs) or c.ended:
            self.done = True

    def transcript(self) -> Dict[str, bytes]:
        self.client.pump()
        if self.ao is not None:
            self.ao.tick()
            o = b''.join(bytes(x.peer.rx) for x in self.ao.conns)
        elif self.oc is not None:
            self.oc.pump()
            o = bytes(self.oc.rx)
        else:
            o = b''
        port = b':%d' % self.origin.port if self.origin is not None else b':0'
        host = self.origin.host.encode() if self.origin is not None else b'-'
        norm = lambda b: b.replace(host + port, b'H:P').replace(host, b'H')      # noqa: E731
        return {'client': norm(bytes(self.client.rx)), 'origin': norm(o), 'ended': b'1' if self.client.ended else b'0'}


def responses_complete(data: bytes) -> int:
    ms, err, _ = h11util.parse_responses(data, [b'GET'] * 4, eof=False)
    return sum(1 for m in ms if m['complete'])


def finish(rig: StepRig, cn: Optional['Canary']) -> None:
    """A canary that has not completed within its iteration budget gets real time before the verdict: its bytes may simply
    still be in flight in the kernel (TCP loopback delivery is not synchronous); only a proxy that has nothing left to do for a
    full second counts as 'never completes'."""
    if cn is None or cn.done or rig.dead is not None:
        return

    def p() -> bool:
        cn.act()
        return bool(cn.done)
    try:
        rig.until(p, [], idle_timeout=1.0, max_stall=6.0, max_wall=20.0)
    except LoopDied:
        pass


def baseline(kind: str, mode: str) -> Dict[str, bytes]:
    key = '%s/%s' % (kind, mode)
    if key not in _base:
        rng = random.Random('c05base')
        rig = StepRig(flags_all(), mode)
        try:
            c04._routes.update({'A': None, 'B': None, 'A2': None})
            cn = Canary(rig, kind, rng, 'base')
            for _ in range(4000):
                if cn.done:
                    break
                cn.act()
                rig.step()
            rig.settle([cn.client], quiet=4)
            t = cn.transcript()
            assert cn.done and t['client'], ('canary baseline did not complete', kind, t)
            _base[key] = t
        finally:
            rig.close()
    return _base[key]




adversary_script = adversary.adversary_script
ROLE_SCRIPTS = adversary.ROLE_SCRIPTS
UPSTREAM_BEHAVIOURS = adversary.UPSTREAM_BEHAVIOURS


def run_tls_front_silent(case: Dict[str, Any]) -> Dict[str, Any]:
    """Proxy with its own TLS front (--key-file/--cert-file), threadless: a client that connects and then says nothing
    (or sends half a ClientHello).  The executor must keep iterating for its other connections."""
    import socket as _socket
    from checks import c10
    key, crt = c10.tls_files()
    flags = make_flags(['--key-file', key, '--cert-file', crt], cache_key='c05:tls')
    shim.S.reset()
    rig = StepRig(flags, case.get('mode', 'local'))
    viol: List[Dict[str, Any]] = []
    adv = case['adv']
    what = adv.get('abort') or 'silent-client'
    obs: Dict[str, int] = {'class:tls-front-silent': 1}
    try:
        from rig.peers import Peer
        if adv.get('abort'):
            # a genuine ClientHello, then - once the server's flight has arrived, i.e. provably in the middle of the
            # handshake - the client goes away with RST or FIN
            import ssl as _ssl
            import threading as _threading
            cctx = _ssl.create_default_context()
            cctx.check_hostname = False
            cctx.verify_mode = _ssl.CERT_NONE
            inc, out = _ssl.MemoryBIO(), _ssl.MemoryBIO()
            sobj = cctx.wrap_bio(inc, out, server_hostname='front.test')
            try:
                sobj.do_handshake()
            except _ssl.SSLWantReadError:
                pass
            hello = out.read()
            ls = _socket.socket(_socket.AF_INET, _socket.SOCK_STREAM)
            ls.bind(('127.0.0.1', 0))
            ls.listen(1)
            a = _socket.socket(_socket.AF_INET, _socket.SOCK_STREAM)
            shim._orig_connect(a, ls.getsockname())
            b, addr = ls.accept()
            ls.close()
            peer = Peer(a, 'aborting-tls-client')
            rig.peers.append(peer)
            peer.send(hello)

            def aborter() -> None:
                import select as _select
                import time as _time
                end = _time.time() + 5
                while _time.time() < end:
                    r, _, _ = _select.select([a], [], [], 0.05)
                    if r:
                        break
                _time.sleep(0.02)
                if adv['abort'] == 'reset-mid-handshake':
                    peer.reset_close()
                else:
                    peer.close()
            th = _threading.Thread(target=aborter, daemon=True)
            th.start()
            rig.hand_over(b, addr)
            del b
            for _ in range(5):
                rig.step()
            th.join(6)
            # the worker must still be able to take another connection
            rig.step(3)
            obs['tls_front_aborts'] = 1
        else:
            a, b = _socket.socketpair(_socket.AF_UNIX, _socket.SOCK_STREAM)
            peer = Peer(a, 'silent-tls-client')
            rig.peers.append(peer)
            if adv.get('hello'):
                peer.send(b'\x16\x03\x01\x02\x00\x01\x00\x01\xfc\x03\x03' + b'\x00' * 20)      # the start of a ClientHello, then silence
            rig.hand_over(b, None)
            for _ in range(5):
                rig.step()      # a stalled iteration is turned into LoopDied(STALL) by the rig's watchdog
    except LoopDied as e:
        viol.append({'key': 'tls-front|%s|loop-died:%s' % (what, e.where()), 'detail': {'adversary': adv, 'tb': e.tb[-900:]}})
    finally:
        rig.close()
    return {'viol': viol, 'nontrivial': True, 'sig': 'tls-front/%s/%s' % (what, adv.get('hello')), 'obs': obs, 'sample': {'case': case}}


def run_idle_neighbour(case: Dict[str, Any]) -> Dict[str, Any]:
    """A silent connection is reaped by the idle sweep (the product's own _run_forever cadence, virtual clock) while a canary
    is in the middle of its conversation on the same worker, and again before a fresh canary."""
    from rig import vclock
    rng = random.Random('c05idle:%s:%s' % (case['seed'], case['i']))
    adv = case['adv']
    kind = case['canary']
    mode = 'local'
    base = baseline(kind, mode)
    shim.S.reset()
    vc = vclock.install()
    T = 5
    flags = make_flags(['--enable-web-server', '--enable-reverse-proxy', '--timeout', str(T)], plugins=[c04.RouteA, c04.RouteB, c04.Rev], cache_key='c05:idle')
    rig = StepRig(flags, mode)
    viol: List[Dict[str, Any]] = []
    obs: Dict[str, int] = {'class:idle-neighbour': 1, 'canary:' + kind: 1, 'mode:' + mode: 1}
    try:
        c04._routes.update({'A': None, 'B': None, 'A2': None})
        idlers = []
        for k in range(adv.get('idlers', 1)):
            p = rig.add_client('unix')
            if adv.get('partial'):
                p.send(b'GET http://127.0.0.1:9/x HTTP/1.1\r\nHo')
            idlers.append(p)
        rig.step(3)
        state: Dict[str, Any] = {'advanced': False, 'canary': None}

        class _Stop(Exception):
            pass

        def before(k: int) -> None:
            if k == adv.get('advance_at', 10) and not state['advanced']:
                # from now on the silent connections are overdue.  The canary connects only now, so every bit of its activity
                # is younger than the jump and it is never overdue itself; the sweep (every 39th iteration of the product's
                # own _run_forever) then falls before, into the middle of, or after its conversation depending on advance_at.
                vc.advance(T + 1)
                state['advanced'] = True
                state['canary'] = Canary(rig, kind, rng, 'concurrent', transport='unix')     # (counted iterations: no kernel latency wanted)
            cn = state['canary']
            if cn is not None and not cn.done:
                cn.act()
            for p in idlers:
                p.pump()
            if cn is not None and cn.done and all(p.ended for p in idlers) and k > adv.get('advance_at', 10) + 45:
                raise _Stop()
        try:
            rig.run_forever_steps(400, before)
        except LoopDied as e:
            if not isinstance(e.exc, _Stop):
                raise
            rig.dead = None
        canary1 = state['canary']
        canary2 = Canary(rig, kind, rng, 'after')
        for _ in range(4000):
            if canary2.done:
                break
            canary2.act()
            rig.step()
        rig.settle([canary1.client, canary2.client], quiet=4)
        for (cn, when) in ((canary1, 'concurrent'), (canary2, 'after')):
            finish(rig, cn)
            t = cn.transcript()
            if not cn.done:
                viol.append({'key': 'idle-neighbour|reaped|canary-%s-never-completes' % when, 'detail': {'adversary': adv, 'canary': kind, 'stage': cn.stage}})
            elif t != base:
                diffs = {k: monitors.diff_streams(base[k], t[k]) for k in base if base[k] != t[k]}
                viol.append({'key': 'idle-neighbour|reaped|canary-%s-differs:%s' % (when, ','.join(sorted(diffs))), 'detail': {'adversary': adv, 'diff': diffs}})
            else:
                obs['canary_%s_equal' % when] = 1
        if all(p.ended for p in idlers):
            obs['idle_connections_reaped'] = len(idlers)
    except LoopDied as e:
        viol.append({'key': 'idle-neighbour|reaped|loop-died:%s' % e.where(), 'detail': {'adversary': adv, 'canary': kind, 'tb': e.tb[-1200:]}})
    finally:
        rig.close()
        vclock.uninstall()
    return {'viol': viol, 'nontrivial': True, 'sig': 'idle/%s/%s' % (sorted(adv.items()), kind), 'obs': obs, 'sample': {'case': case}}


def run_reverse_upstream_fails_while_pending(case: Dict[str, Any]) -> Dict[str, Any]:
    """Reverse proxy: a keep-alive client that is slow to read a large answer (so the proxy still holds output for it) asks for
    a route whose upstream cannot be reached (refuses, does not resolve, resets on accept).  That request fails; the worker and
    everybody else on it carry on."""
    from rig.peers import refused_port
    rng = random.Random('c05rf:%s:%s' % (case['seed'], case['i']))
    adv = case['adv']
    kind = case['canary']
    mode = case.get('mode', 'local')
    base = baseline(kind, mode)
    shim.S.reset()
    resolver.reset({})
    rig = StepRig(flags_all(), mode)
    viol: List[Dict[str, Any]] = []
    obs: Dict[str, int] = {'class:reverse-upstream-fails-while-pending': 1, 'canary:' + kind: 1, 'mode:' + mode: 1}
    try:
        o = rig.add_origin('127.0.%d.%d' % (rng.randint(0, 250), rng.randint(2, 250)))
        how = adv['upstream']
        if how == 'refuse':
            ip = '127.0.%d.%d' % (rng.randint(0, 250), rng.randint(2, 250))
            bad_url = b'http://%s:%d/pb' % (ip.encode(), refused_port(ip))
        elif how == 'unresolvable':
            bad_url = b'http://no-such-upstream-%d.test:81/pb' % case['i']
        else:
            ro = rig.add_origin('127.0.%d.%d' % (rng.randint(0, 250), rng.randint(2, 250)))
            bad_url = b'http://%s/pb' % ro.hostport
        c04._routes.update({'A': b'http://%s/pa' % o.hostport, 'B': bad_url, 'A2': None})
        c = rig.add_client('tcp', rcvbuf=4096)
        c.send(b'GET /ra/1 HTTP/1.1\r\nHost: r.test\r\n\r\n')
        box: Dict[str, Any] = {}

        def acc() -> bool:
            p = o.accept()
            if p is not None:
                box['oc'] = p
            return 'oc' in box
        rig.until(acc, [])
        oc = box['oc']
        rig.until(lambda: b'\r\n\r\n' in oc.rx, [oc])
        body = G.coded(b'P', adv['pending'])
        data = b'HTTP/1.1 200 OK\r\nContent-Length: %d\r\n\r\n' % len(body) + body
        sent = 0
        for _ in range(4000):
            n = oc.send(data[sent:sent + 262144])
            if n > 0:
                sent += n
            rig.step()
            if sent >= len(data):
                break
        held = sum(monitors.client_buffer_depth(w) for w in rig.work_objs())
        obs['adversary_output_still_queued'] = 1 if held > 0 else 0
        c.send(b'GET /rb/2 HTTP/1.1\r\nHost: r.test\r\n\r\n')
        if how == 'reset-on-accept':
            for _ in range(20):
                rig.step()
                p = ro.accept()
                if p is not None:
                    p.reset_close()
                    break
        canary1 = Canary(rig, kind, rng, 'concurrent')
        for _ in range(6000):
            if canary1.done:
                break
            canary1.act()
            rig.step()
            if adv.get('reader') == 'drains':
                c.pump(65536)
        c.close()
        canary2 = Canary(rig, kind, rng, 'after')
        for _ in range(6000):
            if canary2.done:
                break
            canary2.act()
            rig.step()
        rig.settle([canary1.client, canary2.client], quiet=4)
        for (cn, when) in ((canary1, 'concurrent'), (canary2, 'after')):
            finish(rig, cn)
            t = cn.transcript()
            if not cn.done:
                viol.append({'key': 'reverse-upstream-fails-while-pending|%s|canary-%s-never-completes' % (how, when), 'detail': {'adversary': adv, 'canary': kind, 'stage': cn.stage}})
            elif t != base:
                diffs = {k: monitors.diff_streams(base[k], t[k]) for k in base if base[k] != t[k]}
                viol.append({'key': 'reverse-upstream-fails-while-pending|%s|canary-%s-differs:%s' % (how, when, ','.join(sorted(diffs))), 'detail': {'adversary': adv, 'diff': diffs}})
            else:
                obs['canary_%s_equal' % when] = 1
        obs['both_registered'] = 1
    except LoopDied as e:
        viol.append({'key': 'reverse-upstream-fails-while-pending|%s|loop-died:%s' % (adv['upstream'], e.where()), 'detail': {'adversary': adv, 'canary': kind, 'tb': e.tb[-1200:]}})
    finally:
        rig.close()
    return {'viol': viol, 'nontrivial': True, 'sig': 'rufp/%s/%s/%s' % (sorted(adv.items()), kind, mode), 'obs': obs, 'sample': {'case': case}}


def run_always_ready_neighbour(case: Dict[str, Any]) -> Dict[str, Any]:
    """A connection that is 'ready' in every single loop round and never finishes: a client that fetched a large answer, read a
    little of it, half-closed (its descriptor reports EOF from now on) and never reads again.  Connections accepted afterwards
    are admitted and served all the same."""
    rng = random.Random('c05ar:%s:%s' % (case['seed'], case['i']))
    adv = case['adv']
    kind = case['canary']
    mode = case.get('mode', 'local')
    base = baseline(kind, mode)
    shim.S.reset()
    rig = StepRig(flags_all(), mode)
    viol: List[Dict[str, Any]] = []
    obs: Dict[str, int] = {'class:always-ready-neighbour': 1, 'canary:' + kind: 1, 'mode:' + mode: 1}
    try:
        c04._routes.update({'A': None, 'B': None, 'A2': None})
        o = rig.add_origin('127.0.%d.%d' % (rng.randint(0, 250), rng.randint(2, 250)))
        hp = o.hostport
        c = rig.add_client('tcp', rcvbuf=4096)
        c.send(b'GET http://%s/big HTTP/1.1\r\nHost: %s\r\n\r\n' % (hp, hp))
        box: Dict[str, Any] = {}

        def acc() -> bool:
            p = o.accept()
            if p is not None:
                box['oc'] = p
            return 'oc' in box
        rig.until(acc, [])
        oc = box['oc']
        rig.until(lambda: b'\r\n\r\n' in oc.rx, [oc])
        body = G.coded(b'A', adv['size'])
        data = b'HTTP/1.1 200 OK\r\nContent-Length: %d\r\n\r\n' % len(body) + body
        sent = 0
        for _ in range(6000):
            n = oc.send(data[sent:sent + 262144])
            if n > 0:
                sent += n
            rig.step()
            if sent >= len(data):
                break
        c.pump(1024)
        if adv['then'] == 'half-close':
            c.shutdown_wr()
        elif adv['then'] == 'keeps-sending':
            c.send(b'X' * 10)
        rig.step(5)
        held = sum(monitors.client_buffer_depth(w) for w in rig.work_objs())
        obs['adversary_output_still_queued'] = 1 if held > 0 else 0
        for when in ('first', 'second'):
            cn = Canary(rig, kind, rng, when)
            for _ in range(8000):
                if cn.done:
                    break
                cn.act()
                rig.step()
                if adv['then'] == 'keeps-sending' and rng.random() < 0.3:
                    c.send(b'Y')
            rig.settle([cn.client], quiet=4)
            finish(rig, cn)
            t = cn.transcript()
            if not cn.done:
                viol.append({'key': 'always-ready-neighbour|%s|canary-%s-never-completes' % (adv['then'], when), 'detail': {'adversary': adv, 'canary': kind, 'stage': cn.stage}})
                break
            elif t != base:
                diffs = {k: monitors.diff_streams(base[k], t[k]) for k in base if base[k] != t[k]}
                viol.append({'key': 'always-ready-neighbour|%s|canary-%s-differs:%s' % (adv['then'], when, ','.join(sorted(diffs))), 'detail': {'adversary': adv, 'diff': diffs}})
            else:
                obs['canary_after_equal'] = 1
        obs['both_registered'] = 1
    except LoopDied as e:
        viol.append({'key': 'always-ready-neighbour|%s|loop-died:%s' % (adv['then'], e.where()), 'detail': {'adversary': adv, 'canary': kind, 'tb': e.tb[-1200:]}})
    finally:
        rig.close()
    return {'viol': viol, 'nontrivial': True, 'sig': 'arn/%s/%s/%s' % (sorted(adv.items()), kind, mode), 'obs': obs, 'sample': {'case': case}}


WS_HANDSHAKE = (b'GET /wsa HTTP/1.1\r\nHost: w.test\r\nUpgrade: websocket\r\nConnection: Upgrade\r\n'
                b'Sec-WebSocket-Key: dGhlIHNhbXBsZSBub25jZQ==\r\nSec-WebSocket-Version: 13\r\n\r\n')
# frames no conforming peer sends: length fields with the top bit set (negative when read as signed - two of them cancel the
# header size exactly), lengths far beyond what follows, truncated headers, floods of empty frames, control frames
WS_HOSTILE = [bytes.fromhex('817ffffffffffffffff6'), bytes.fromhex('81fffffffffffffffff2') + b'mask', bytes.fromhex('817f8000000000000000'),
              bytes.fromhex('817f7fffffffffffffff') + b'few', bytes.fromhex('817fffffffffffffffff'), bytes.fromhex('817e'), bytes.fromhex('81'),
              bytes.fromhex('817f00'), bytes.fromhex('81fe0005aa'), bytes.fromhex('8100') * 2000, bytes.fromhex('8800'), bytes.fromhex('8900'),
              bytes.fromhex('817effff') + b'x' * 10, bytes.fromhex('f37f0000000000000000'), bytes.fromhex('817ffffffffffffffff5') + b'z',
              bytes.fromhex('817ffffffffffffffff7') + b'zz', bytes.fromhex('8a7ffffffffffffffff6')]


def ws_input(spec: Dict[str, Any]) -> bytes:
    good = bytes.fromhex('8105') + b'hello'
    return WS_HANDSHAKE + b''.join(good if k < 0 else WS_HOSTILE[k % len(WS_HOSTILE)] for k in spec['frames'])


def run_case(case: Dict[str, Any]) -> Dict[str, Any]:
    if case['adv']['class'] == 'always-ready-neighbour':
        return run_always_ready_neighbour(case)
    if case['adv']['class'] == 'reverse-upstream-fails-while-pending':
        return run_reverse_upstream_fails_while_pending(case)
    if case['adv']['class'] == 'tls-front-silent':
        return run_tls_front_silent(case)
    if case['adv']['class'] == 'idle-neighbour':
        return run_idle_neighbour(case)
    rng = random.Random('c05:%s:%s' % (case['seed'], case['i']))
    mode = case.get('mode', 'local')
    kind = case['canary']
    base = baseline(kind, mode)
    shim.S.reset()
    texc = monitors.watch_task_exceptions()
    rig = StepRig(flags_all(), mode)
    viol: List[Dict[str, Any]] = []
    obs: Dict[str, int] = {}
    sched: List[str] = []
    adv = case['adv']
    # descriptor-number layout is arbitrary in real life: a few placeholder descriptors, released part-way through the
    # adversary's conversation, make later sockets land on lower numbers than the ones being closed (recycling patterns)
    import os as _os
    holes = [_os.open('/dev/null', _os.O_RDONLY) for _ in range(adv.get('holes', 0))]
    feat = '%s|%s' % (adv['class'], adv.get('role', adv.get('kind', '-')))
    both_registered = False
    slow_iter = 0
    try:
        c04._routes.update({'A': None, 'B': None, 'A2': None})
        resolver.reset({})
        # ---- adversary set-up ----
        box: Dict[str, Any] = {}

        def start_canary() -> None:
            box['canary1'] = Canary(rig, kind, rng, 'concurrent') if case.get('concurrent', True) else None
        A = adversary.Adversary(rig, adv, rng, case, c04._routes,
                                make_bytes=((lambda hp_: ws_input(adv['ws'])) if adv.get('kind') == 'ws' else
                                            (lambda hp_: c06.make_input(random.Random('c05b:%s:%s' % (case['seed'], case['i'])), adv['c06'], hp_)))
                                if adv['class'] == 'bytes' else None, holes=holes, before_client=start_canary)
        canary1 = box['canary1']
        adversary_act = A.act
        a_state = A.state
        aorigin = A.origin
        # ---- interleave ----
        import time as _t
        guard = 0
        while guard < 6000:
            guard += 1
            acts = ['P', 'P', 'P']
            if canary1 is not None and canary1.enabled():
                acts += ['C', 'C']
            if not a_state['ended'] or (aorigin is not None and not a_state['answered']):
                acts += ['A', 'A']
            a = rng.choice(acts)
            sched.append(a)
            if a == 'P':
                t0 = _t.time()
                rig.step()
                if _t.time() - t0 > 1.0:
                    slow_iter += 1
                if len(rig.works) >= 2:
                    both_registered = True
            elif a == 'C':
                canary1.act()       # type: ignore[union-attr]
            else:
                adversary_act()
            if (canary1 is None or canary1.done) and a_state['ended'] and guard > 40:
                break
            if a_state['ended'] and canary1 is not None and not canary1.done and guard > 3000:
                break
        # let the adversary's teardown finish, then a fresh canary on the same executor
        for _ in range(30):
            rig.step()
            adversary_act()
        shim.S.fault = None
        fired = shim.S.fault_fired
        canary2 = Canary(rig, kind, rng, 'after')
        for _ in range(4000):
            if canary2.done:
                break
            canary2.act()
            rig.step()
        rig.settle([canary2.client] + ([canary1.client] if canary1 else []), quiet=4)
        canary3 = None
        if adv['class'] == 'reverse-switch' and not A.client.closed:
            # a third canary is in the middle of its conversation (request sent, origin not answering yet) at the moment the
            # adversary's connection finally ends: whatever the worker releases for the adversary must be the adversary's only
            # descriptor numbers some work still lists although it has closed them ("stale"): arrange the process's
            # descriptor table so that the canary's next proxy-side socket is handed exactly such a number
            stale = set()
            for reg in rig.ex.registered_events_by_work_ids.values():
                for fd in reg:
                    try:
                        _os.fstat(fd)
                    except OSError:
                        stale.add(fd)
            fillers: List[int] = []
            if stale:
                while True:
                    fd = _os.open('/dev/null', _os.O_RDONLY)
                    fillers.append(fd)
                    if fd > max(stale) or len(fillers) > 200:
                        break
                obs['stale_numbers_targeted'] = 1
            canary3 = Canary(rig, kind, rng, 'while-adversary-ends')
            canary3.hold = True
            for fd in [f for f in fillers if f in stale]:
                _os.close(fd)           # the next descriptors the worker opens (upstream connect, dup) land on these numbers
                fillers.remove(fd)
            for _ in range(60):
                canary3.act()
                rig.step()
            for fd in fillers:
                _os.close(fd)
            A.client.close()
            for _ in range(12):
                rig.step()
            canary3.hold = False
            for _ in range(4000):
                if canary3.done:
                    break
                canary3.act()
                rig.step()
            rig.settle([canary3.client], quiet=4)
        for (cn, when) in ((canary1, 'concurrent'), (canary2, 'after'), (canary3, 'while-adversary-ends')):
            if cn is None:
                continue
            finish(rig, cn)
            finish(rig, cn)
            t = cn.transcript()
            if not cn.done:
                viol.append({'key': '%s|canary-%s-never-completes' % (feat, when),
                             'detail': {'adversary': adv, 'canary': kind, 'client': t['client'][:200], 'stage': cn.stage,
                                        'works': len(rig.works), 'task_exceptions': sorted({x[0] for x in texc})}})
            elif t != base:
                diffs = {k: monitors.diff_streams(base[k], t[k]) for k in base if base[k] != t[k]}
                viol.append({'key': '%s|canary-%s-differs:%s' % (feat, when, ','.join(sorted(diffs))),
                             'detail': {'adversary': adv, 'canary': kind, 'diff': diffs}})
            else:
                obs['canary_%s_equal' % when] = 1
        if adv['class'] == 'fault':
            obs['faults_fired'] = fired
            obs['fault:%s:%s' % (adv['kind'], adv['errno'])] = fired
        obs['call_counts:recv'] = shim.S.call_index.get('recv', 0)
        obs['call_counts:send'] = shim.S.call_index.get('send', 0)
        obs['call_counts:connect'] = shim.S.call_index.get('connect', 0)
    except LoopDied as e:
        viol.append({'key': '%s|loop-died:%s' % (feat, e.where()), 'detail': {'adversary': adv, 'canary': kind, 'tb': e.tb[-1500:]}})
    finally:
        shim.S.fault_filter = None
        shim.S.fault = None
        while holes:
            _os.close(holes.pop())
        rig.close()
    import zlib
    sh = zlib.crc32(''.join(sched).encode())
    if adv.get('kind') == 'ws':
        obs['hostile_websocket_frame_cases'] = 1
    obs.update({'class:' + adv['class']: 1, 'canary:' + kind: 1, 'mode:' + mode: 1, 'both_registered': 1 if both_registered else 0,
                'slow_iterations>1s': slow_iter, 'task_exceptions_swallowed': len(texc)})
    return {'viol': viol, 'nontrivial': both_registered, 'sig': '%s/%s/%s/%s/%x' % (feat, sorted(adv.items()), kind, mode, sh),
            'obs': obs, 'sets': {'schedules': {sh}, 'task_exception_sites': {x[0] for x in texc}},
            'sample': {'case': case, 'schedule_head': ''.join(sched[:60])}}


ERRNOS = adversary.ERRNOS
CANARIES = ['forward', 'tunnel', 'web', 'reverse']


def cases(tier: str, seed: int):
    rng = random.Random('c05cases:%d' % seed)
    i = 0

    def mk(adv: Dict[str, Any], **kw: Any) -> Dict[str, Any]:
        nonlocal i
        i += 1
        d = {'seed': seed, 'i': i, 'adv': adv, 'canary': CANARIES[i % 4], 'mode': 'remote' if i % 5 == 0 else 'local', 'concurrent': True}
        d.update(kw)
        return d
    # (1) every prefix of every role script x ending
    step = 2 if tier == 'quick' else 1
    for role in ROLE_SCRIPTS:
        n = len(adversary_script(role, b'127.0.100.100:50000'))
        for pos in range(0, n + 1, step):
            for ending in (['close', 'reset', 'silence'] if tier != 'quick' else [['close', 'reset', 'silence'][pos % 3]]):
                yield mk({'class': 'prefix', 'role': role, 'prefix': pos, 'ending': ending, 'ncuts': rng.choice([0, 1, 3])})
    # (2) byte strings
    for k in range(2500 if tier == 'quick' else 20000):
        kind = rng.choice(['random', 'mutate', 'insert', 'delete', 'special', 'nonutf8', 'oversize', 'concat'])
        c: Dict[str, Any] = {'kind': kind, 'base': rng.choice(c06.BASES), 'pos': rng.randrange(400), 'byte': rng.choice(c06.BYTES),
                             'n': rng.choice([1, 2, 5]), 'idx': rng.randrange(len(c06.SPECIALS)),
                             'field': rng.choice(['method', 'host', 'path', 'version', 'header-name', 'header-value', 'connect-host', 'web-path', 'web-ua', 'body']),
                             'what': rng.choice(['long-target', 'long-header', 'many-headers', 'long-method', 'no-crlf', 'crlf-flood']),
                             'names': rng.choice([['get', 'get'], ['web', 'web'], ['post', 'get'], ['connect', 'get'], ['chunked', 'chunked']])}
        yield mk({'class': 'bytes', 'kind': kind, 'c06': c, 'ending': rng.choice(['close', 'reset', 'silence']), 'ncuts': rng.choice([0, 2, 9])})
    for k in range(120 if tier == 'quick' else 1500):
        frames = [rng.choice([-1, -1] + list(range(len(WS_HOSTILE)))) for _ in range(rng.randint(1, 4))]
        yield mk({'class': 'bytes', 'kind': 'ws', 'ws': {'frames': frames}, 'ending': rng.choice(['close', 'reset', 'silence', 'silence']),
                  'ncuts': rng.choice([0, 0, 1, 2])})
    # (3) misbehaving upstreams in every role that has one
    for rep in range(5 if tier == 'quick' else 40):
        for role in ('forward', 'forward-post', 'tunnel', 'reverse'):
            for ub in UPSTREAM_BEHAVIOURS:
                yield mk({'class': 'upstream', 'role': role, 'upstream': ub, 'ending': rng.choice(['silence', 'close', 'reset']),
                          'linger': rng.choice([3, 30]), 'resp_size': rng.choice([3000, 200000])})
    # (4) client goes away / stops reading while a large response is queued
    for rep in range(6 if tier == 'quick' else 80):
        for role in ('forward', 'tunnel', 'reverse'):
            for ending in ('close', 'reset', 'half-close'):
                yield mk({'class': 'client-abort-with-queued-output', 'role': role, 'ending': ending, 'resp_size': rng.choice([300000, 2000000]),
                          'never_reads': rng.random() < 0.5, 'slow_reader': True, 'linger': rng.choice([1, 5, 40])})
    # (4a) an upstream that accepts and then never reads while the client uploads megabytes
    for rep in range(3 if tier == 'quick' else 30):
        for role in ('forward', 'tunnel', 'reverse'):
            yield mk({'class': 'upstream-never-reads', 'role': role, 'upload': rng.choice([3000000, 12000000]), 'ending': rng.choice(['silence', 'close', 'reset']),
                      'ncuts': 40, 'linger': 20})
    # (4b) reverse proxy connection that keeps switching between two upstreams (closing one socket, opening another) and then stays
    for rep in range(250 if tier == 'quick' else 2500):
        yield mk({'class': 'reverse-switch', 'role': 'reverse', 'requests': rng.choice([3, 6, 12]), 'ending': rng.choice(['silence', 'silence', 'close']),
                  'holes': rng.choice([0, 1, 2, 3, 5, 8])},
                 canary=rng.choice(CANARIES))
    # (4c) the proxy's own TLS front and a client that never completes (or never starts) the handshake
    for hello in ((False,) if tier == 'quick' else (False, True, True)):
        yield mk({'class': 'tls-front-silent', 'hello': hello}, mode='local')
    for rep in range(6 if tier == 'quick' else 60):
        yield mk({'class': 'tls-front-silent', 'abort': ['reset-mid-handshake', 'fin-mid-handshake'][rep % 2]}, mode=['local', 'remote'][(rep // 2) % 2])
    # (4c2) reverse proxy: an unreachable upstream is asked for while an earlier answer is still queued for the client
    for rep in range(24 if tier == 'quick' else 300):
        yield mk({'class': 'reverse-upstream-fails-while-pending', 'upstream': ['refuse', 'unresolvable', 'reset-on-accept'][rep % 3],
                  'pending': rng.choice([0, 3000, 2000000, 8000000]), 'reader': rng.choice(['stalled', 'drains'])},
                 canary=['forward', 'tunnel', 'web'][(rep // 3) % 3], mode='local' if rep % 4 else 'remote')
    # (4c3) a neighbour that is ready in every loop round and never finishes
    for rep in range(16 if tier == 'quick' else 200):
        yield mk({'class': 'always-ready-neighbour', 'size': rng.choice([8000000, 16000000]), 'then': ['half-close', 'keeps-sending'][rep % 2]},
                 canary=CANARIES[rep % 4], mode='local' if rep % 3 else 'remote')
    # (4d) silent neighbours reaped by the idle sweep while the canary talks
    for rep in range(40 if tier == 'quick' else 400):
        yield mk({'class': 'idle-neighbour', 'idlers': rng.choice([1, 2, 3]), 'partial': rng.random() < 0.5, 'advance_at': rng.choice([0, 5, 20, 38, 39, 40])},
                 canary=CANARIES[rep % 4], mode='local')
    # (5) fault enumeration: every (kind, index, errno) up to the call counts of the fault-free runs
    bounds = {'forward': (6, 4, 1), 'forward-post': (6, 4, 1), 'tunnel': (8, 5, 1), 'web': (4, 3, 0), 'reverse': (7, 5, 1)}
    for role, (nr, ns, nc) in bounds.items():
        for kind, cnt in (('recv', nr), ('send', ns), ('connect', nc)):
            for idx in range(cnt):
                for en in ERRNOS[kind]:
                    for rep in range(1 if tier == 'quick' else 4):
                        yield mk({'class': 'fault', 'role': role, 'kind': kind, 'index': idx, 'errno': en, 'ending': 'silence',
                                  'linger': 60, 'resp_size': rng.choice([3000, 150000])})


def floors(tier: str) -> Dict[str, int]:
    return {'both_registered': 2000, 'canary_concurrent_equal': 2000, 'canary_after_equal': 2500, 'faults_fired': 60,
            'class:prefix': 200, 'class:bytes': 300, 'class:reverse-switch': 150, 'tls_front_aborts': 4, 'idle_connections_reaped': 30, 'class:upstream': 60, 'class:fault': 150, 'mode:remote': 100,
            'distinct:schedules': 500, 'hostile_websocket_frame_cases': 60}


if __name__ == '__main__':
    raise SystemExit(driver.main(__import__('checks.c05', fromlist=['x'])))

"""C14 — the proxy connects to exactly the host and port the request-target names.

Direct rig: Url.from_bytes / HttpParser request-line fields vs an independent RFC 3986
authority splitter.  Step rig: the OS-level arguments of name resolution and connect()
(resolver log + sys.addaudithook 'socket.connect') and the request line read by the
origin, for generated targets in origin-, absolute- and authority-form.
"""
import random
import ipaddress
import contextlib
from typing import Any, Dict, List, Optional, Tuple

from rig import env, driver, shim, audit, resolver, monitors, h11util, gen_http as G

env.quiet_logging()

from rig.steprig import StepRig, make_flags, LoopDied      # noqa: E402
from proxy.http.parser import HttpParser, httpParserTypes   # noqa: E402
from proxy.http.url import Url                              # noqa: E402

PROPERTY = 'C14'
LEVEL = 'exploration'
LEVEL_TEXT = ('Exploration: grammar-generated request-targets (reg-names incl. UTF-8/IDNA, IPv4, IPv6 in many '
              'spellings, ports absent/empty/0/1/80/443/65535, userinfo, paths and queries with reserved characters) '
              'in absolute- and authority-form plus damaged variants; parsed fields are compared with an independent '
              'splitter, and for a sample the real proxy is driven and the arguments of getaddrinfo()/connect() '
              'observed at the interpreter boundary.')
LEVEL_NOTE = ('Trusted: the reference splitter in this file (RFC 3986 3.2, cross-checked against urllib.parse and '
              'ipaddress on every generated valid target), the audit hook, the resolver override.')
TECHNIQUE = 'runtime monitoring: audit hook on socket.connect + resolver log (OS-level arguments) and differential test of the target parser vs a reference splitter'
RULE = ('case = (target form, host kind, port kind, userinfo, path kind, damage); mode direct = parser fields only, '
        'mode live = real proxy driven and connect()/getaddrinfo() observed; non-trivial = host is not a plain '
        'LDH name or port/userinfo present; distinct = target bytes')
ASSUMPTIONS = ['*.test names resolve through the harness resolver (no DNS in the sandbox)',
               'only ::1 exists as IPv6 loopback address here; live cases on it are serialised machine-wide by a file lock']
SHARDS = {'quick': 8, 'thorough': 16}
BUDGET_S = {'quick': 45, 'thorough': 800}

V6 = ['::1', '0:0:0:0:0:0:0:1', '::0:1', '0000:0000:0000:0000:0000:0000:0000:0001', '0::1', '::0001']
V6_OTHER = ['2001:db8::1', 'fe80::1', '::ffff:127.0.0.1', '2001:DB8:0:0:8:800:200C:417A', '::']


class LockTimeout(Exception):
    pass


def ref_split(target: bytes, connect: bool) -> Optional[Dict[str, Any]]:
    """RFC 3986 authority splitter.  None = not a valid http / authority-form target."""
    if connect:
        authority, path = target, None
        if b'/' in authority or b'?' in authority or b'#' in authority or b'@' in authority:
            return None
    else:
        if not target[:7].lower() == b'http://':
            return None
        rest = target[7:]
        idx = len(rest)
        for ch in (b'/', b'?', b'#'):
            j = rest.find(ch)
            if j >= 0:
                idx = min(idx, j)
        authority, path = rest[:idx], rest[idx:]
        if not path.startswith(b'/'):
            path = b'/' + path
    userinfo = None
    if b'@' in authority:
        userinfo, authority = authority.rsplit(b'@', 1)
        if b'@' in userinfo:
            return None
    if authority.startswith(b'['):
        end = authority.find(b']')
        if end < 0:
            return None
        host, after = authority[1:end], authority[end + 1:]
        try:
            ipaddress.IPv6Address(host.decode('ascii'))
        except Exception:
            return None
        if after == b'':
            port = None
        elif after.startswith(b':'):
            port = after[1:]
        else:
            return None
        kind = 'ipv6'
    else:
        if b':' in authority:
            host, _, port = authority.rpartition(b':')
            if b':' in host:
                return None     # unbracketed IPv6 is not a valid authority
        else:
            host, port = authority, None
        kind = 'name'
        try:
            ipaddress.IPv4Address(host.decode('ascii'))
            kind = 'ipv4'
        except Exception:
            pass
        if b'[' in host or b']' in host:
            return None
    if host == b'':
        return None
    if port is not None and port != b'':
        if not port.isdigit() or int(port) > 65535:
            return None
        portno: Optional[int] = int(port)
    else:
        portno = None
    return {'host': host, 'port': portno if portno is not None else (443 if connect else 80), 'explicit_port': portno,
            'path': path, 'userinfo': userinfo, 'kind': kind}


def gen_target(rng: random.Random, case: Dict[str, Any]) -> Tuple[bytes, bool, Dict[str, Any]]:
    connect = case['form'] == 'authority'
    hk = case['host']
    meta: Dict[str, Any] = {}
    if hk == 'ldh':
        host = (G.token(rng, 1, 10).lower().strip(b'-_') or b'a') + b'.test'
    elif hk == 'sub':
        host = b'a-b.' + (G.token(rng, 1, 6).lower().strip(b'-_') or b'q') + b'.c0.test'
    elif hk == 'upper':
        host = b'MiXeD.' + (G.token(rng, 1, 6).strip(b'-_') or b'q') + b'.TEST'
    elif hk == 'utf8':
        host = rng.choice(['bücher', 'école', '例え', 'straße']).encode('utf-8') + b'.test'
    elif hk == 'punycode':
        host = b'xn--bcher-kva.test'
    elif hk == 'long':
        host = b'.'.join([b'l' * 60] * 3) + b'.test'
    elif hk == 'ipv4':
        host = b'127.%d.%d.%d' % (rng.randint(0, 250), rng.randint(0, 250), rng.randint(2, 250))
    elif hk == 'ipv6':
        host = b'[' + rng.choice(V6).encode() + b']'
        if rng.random() < 0.3:
            host = host.upper()
    elif hk == 'ipv6-other':
        host = b'[' + rng.choice(V6_OTHER).encode() + b']'
    else:
        raise ValueError(hk)
    pk = case['port']
    port = {'absent': b'', 'empty': b':', '0': b':0', '1': b':1', '80': b':80', '443': b':443', '65535': b':65535',
            'leading0': b':0080'}.get(pk)
    if port is None:
        port = b':%d' % rng.randint(1024, 65000)     # 'rand' -> replaced by the origin's port in live mode
    ui = b''
    if case.get('userinfo') and not connect:
        # (the last four look like host:port themselves: credentials never name the destination)
        ui = rng.choice([b'user:pass@', b'u%40x:p%3Aq@', b'user:@', b'a.b-c:d_e~f@', b'admin:12345@', b'127.0.0.9:81@', b'evil.test:8080@', b'u:80@'])
    if connect:
        target = host + port
    else:
        pathk = case.get('path', 'plain')
        path = {'none': b'', 'root': b'/', 'plain': b'/a/' + G.token(rng), 'query': b'/p?q=' + G.token(rng) + b'&r=1',
                'colon-at': b'/x:y@z/a:80?u=b@c:1', 'url-in-query': b'/r?next=http://evil.test:81/x',
                'query-only': b'?only=query', 'query-slash': b'?next=/home/' + G.token(rng), 'query-at': b'?u=x@127.0.0.9:81/p',
                'query-url': b'?cb=http://other.test:82/x', 'frag-slash': b'#/route/' + G.token(rng), 'frag-at': b'#x@127.0.0.9:83/',
                'encoded': b'/%2e%2e/%41?%3a=%40', 'double-slash': b'//dd//e',
                'reserved': b"/a;b=c/!$&'()*+,=~?x=[1]"}[pathk]
        target = b'http://' + ui + host + port + path
    dmg = case.get('damage')
    if dmg == 'no-close-bracket':
        target = target.replace(b']', b'', 1)
    elif dmg == 'no-open-bracket':
        target = target.replace(b'[', b'', 1)
    elif dmg == 'alpha-port':
        target = target.replace(host + port, host + b':8o80', 1)
    elif dmg == 'two-at':
        target = target.replace(b'http://', b'http://a@b@', 1)
    elif dmg == 'huge-port':
        target = target.replace(host + port, host + b':65536', 1)
    elif dmg == 'neg-port':
        target = target.replace(host + port, host + b':-80', 1)
    elif dmg == 'empty-host':
        target = target.replace(host, b'', 1)
    elif dmg == 'space':
        target = target.replace(host, host[:1] + b'%20' + host[1:], 1)
    meta['host_token'] = host
    return target, connect, meta


def same_host(ours: Optional[bytes], ref: bytes) -> bool:
    if ours is None:
        return False
    return ours.strip(b'[]') == ref


def judge_direct(target: bytes, connect: bool, ref: Optional[Dict[str, Any]], host_hdr: Optional[bytes] = b'x') -> List[Tuple[str, Any]]:
    bad: List[Tuple[str, Any]] = []
    line = (b'CONNECT ' if connect else b'GET ') + target + b' HTTP/1.1\r\n' + \
        (b'' if host_hdr is None else b'Host: ' + host_hdr + b'\r\n') + b'Accept: */*\r\n\r\n'
    p = HttpParser(httpParserTypes.REQUEST_PARSER)
    try:
        p.parse(memoryview(line))
    except Exception as e:
        if ref is not None:
            bad.append(('parser-rejects-valid-target:' + type(e).__name__, repr(e)[:200]))
        return bad
    if ref is None:
        return bad      # how a damaged target is *routed* is judged in live mode
    if not same_host(p.host, ref['host']):
        bad.append(('host', (p.host, ref['host'])))
    if p.port != ref['port']:
        bad.append(('port', (p.port, ref['port'])))
    if not connect:
        path = p.path if p.path else b'/'
        if path != ref['path']:
            bad.append(('path', (p.path, ref['path'])))
    return bad


def crosscheck_reference(target: bytes, connect: bool, ref: Optional[Dict[str, Any]]) -> Optional[str]:
    """The reference itself is cross-checked against urllib.parse on valid targets."""
    if ref is None or connect:
        return None
    from urllib.parse import urlsplit
    try:
        u = urlsplit(target.decode('utf-8'))
        uh = (u.hostname or '').encode('utf-8')
        up = u.port
    except Exception:
        return None
    if uh.lower() != ref['host'].lower() or (up is not None and up != ref['explicit_port']):
        return 'reference disagrees with urllib: %r vs %r' % ((uh, up), (ref['host'], ref['explicit_port']))
    return None


def run_case(case: Dict[str, Any]) -> Dict[str, Any]:
    rng = random.Random('c14:%s:%s' % (case['seed'], case['i']))
    if case['mode'] == 'port-wrap':
        return run_port_wrap(case, rng)
    target, connect, meta = gen_target(rng, case)
    viol: List[Dict[str, Any]] = []
    obs: Dict[str, int] = {}
    hostk = 'ipv6' if case['host'].startswith('ipv6') else ('ipv4' if case['host'] == 'ipv4' else 'name')
    cls = '%s|%s|port-%s%s%s' % (case['form'], hostk, case['port'], '|userinfo' if case.get('userinfo') else '',
                                 ('|dmg-' + case['damage']) if case.get('damage') else '')
    lenient = case['port'] == 'empty'      # 'host:' is outside the quantifier: reject it or route it to the default port
    pk = case.get('path', 'plain') if not connect else 'n/a'
    sample: Dict[str, Any] = {'target': target, 'mode': case['mode']}
    inconclusive = None

    if case['mode'] == 'direct':
        ref = ref_split(target, connect)
        cc = crosscheck_reference(target, connect, ref)
        if cc:
            inconclusive = 'reference-selfcheck: ' + cc
        # the destination comes from the request-target alone: whatever the Host field says (another port, another host,
        # nothing) must not move it
        hh = rng.choice([b'x', b'x:8080', b'other.test:8443', b'[::1]:9', None, b'h:0', b':81',
                         (ref['host'] if ref and ref['kind'] != 'ipv6' else b'y') + b':%d' % rng.choice([81, 8080, 8443, 65535])])
        for (what, d) in judge_direct(target, connect, ref, hh):
            if lenient:
                continue        # routing of 'host:' (empty port) is judged in live mode only
            k = 'direct|%s|%s' % (cls, what)
            if what == 'path' or what.startswith('parser-rejects'):
                k += '|path-' + pk
            viol.append({'key': k, 'detail': {'target': target, 'diff': d}})
        obs['direct'] = 1
        obs['direct_valid' if ref is not None else 'direct_damaged'] = 1
        sample['ref'] = ref
    else:
        # live: bind an origin where the target points (when possible), drive the real proxy
        flags = make_flags([], cache_key='c14')
        shim.S.reset()
        rig = StepRig(flags, 'local')
        excl = contextlib.ExitStack()
        try:
            if case['host'] == 'ipv6':
                # ::1 is the only IPv6 loopback address, so a fixed port on it ([::1]:80, :443, ...) exists once
                # per machine.  Without mutual exclusion another shard's proxy (correctly) connecting to [::1]:80
                # lands on *this* case's origin, and this case's proxy on theirs.  Valid and damaged targets alike.
                if not excl.enter_context(env.exclusive('v6-loopback')):
                    raise LockTimeout()
            ref0 = ref_split(target, connect)
            ip = None
            origin = None
            if ref0 is not None:
                if ref0['kind'] == 'ipv4':
                    ip = ref0['host'].decode()
                elif ref0['kind'] == 'ipv6':
                    ip = '::1' if ipaddress.IPv6Address(ref0['host'].decode()) == ipaddress.IPv6Address('::1') else None
                else:
                    ip = '127.%d.%d.%d' % (rng.randint(0, 250), rng.randint(0, 250), rng.randint(2, 250))
            if ip is not None:
                want_port = ref0['port'] if case['port'] != 'rand' else 0
                if want_port in (0, 1) and case['port'] in ('0', '1'):
                    want_port = None     # nothing can listen on port 0; port 1 stays closed (refusal is fine)
                if want_port is not None:
                    try:
                        origin = rig.add_origin(ip, want_port)
                    except OSError:
                        origin = None    # e.g. [::1]:80 taken by another shard: the attempt is still observable
            if case['port'] == 'rand' and origin is not None:
                # rewrite the placeholder port to the origin's real port
                old = b':%d' % ref0['explicit_port']
                target = target.replace(meta['host_token'] + old, meta['host_token'] + b':%d' % origin.port, 1)
            ref = ref_split(target, connect)
            sample['target'] = target
            sample['ref'] = ref
            mapping = {}
            if ref is not None and ref['kind'] == 'name' and ip is not None:
                try:
                    mapping[ref['host'].decode('utf-8').lower()] = ip
                    mapping[ref['host'].decode('utf-8').encode('idna').decode('ascii').lower()] = ip
                except Exception:
                    pass
            lookups = resolver.reset(mapping)
            alog = audit.start()
            client = rig.add_client('unix')
            hosthdr = (b'[%s]' % ref['host'] if ref and ref['kind'] == 'ipv6' else (ref['host'] if ref else b'x'))
            decoy = None
            if ref is not None and ip is not None and case.get('host_field') == 'other-port':
                # the Host field names another port of the same host, where a decoy listens
                try:
                    decoy = rig.add_origin(ip, 0)
                    hosthdr = hosthdr + b':%d' % decoy.port
                    obs['host_field_names_other_port'] = 1
                except OSError:
                    decoy = None
            if connect:
                client.send(b'CONNECT ' + target + b' HTTP/1.1\r\nHost: ' + (hosthdr if decoy is not None else target) + b'\r\n\r\n')
            else:
                client.send(b'GET ' + target + b' HTTP/1.1\r\nHost: ' + hosthdr + b'\r\n\r\n')
            oc_box: Dict[str, Any] = {}

            def done() -> bool:
                if origin is not None and 'oc' not in oc_box:
                    p = origin.accept()
                    if p is not None:
                        oc_box['oc'] = p
                if 'oc' in oc_box:
                    oc_box['oc'].pump()
                    if connect:
                        return b'\r\n\r\n' in client.rx
                    return b'\r\n\r\n' in oc_box['oc'].rx
                return client.ended or b'\r\n\r\n' in client.rx
            rig.until(done, [client], idle_timeout=0.3)
            rig.settle([client], quiet=4)
            audit.stop()
            connects = [a for (ev, a) in alog if ev == 'socket.connect']
            looks = list(lookups)
            sample['connects'] = [repr(c) for c in connects]
            sample['lookups'] = [repr(l) for l in looks]
            obs['live'] = 1
            obs['connect_events'] = len(connects)
            obs['lookup_events'] = len(looks)
            msgs, err, _ = h11util.parse_responses(bytes(client.rx), [b'CONNECT' if connect else b'GET'], eof=client.eof)
            code = msgs[0]['code'] if msgs else None
            rejected = (code is not None and code >= 400) or (client.ended and not client.rx)
            if ref is not None and (lenient or ref['port'] == 0) and rejected and 'oc' not in oc_box \
                    and not [c for c in connects if isinstance(c, tuple) and len(c) >= 2 and c[1] != ref['port']]:
                obs['rejected'] = 1     # unroutable / out-of-quantifier port: rejecting without contacting anything else is fine
            elif ref is None:
                obs['live_damaged'] = 1
                # damaged: rejected (error response then close) or nothing reached; never a successful connect elsewhere
                reached = [c for c in connects]
                ok_reject = (code is not None and code >= 400) or (client.ended and not client.rx)
                if 'oc' in oc_box or (reached and not ok_reject):
                    viol.append({'key': 'live|%s|damaged-target-routed' % cls,
                                 'detail': {'target': target, 'connects': sample['connects'], 'lookups': sample['lookups'],
                                            'client': bytes(client.rx[:120])}})
                elif not ok_reject:
                    viol.append({'key': 'live|%s|damaged-target-no-rejection' % cls,
                                 'detail': {'target': target, 'client': bytes(client.rx[:120]), 'ended': client.ended}})
                else:
                    obs['rejected'] = 1
            else:
                obs['live_valid'] = 1
                exp_host = ref['host']
                bad: List[Tuple[str, Any]] = []
                if ref['kind'] in ('ipv4', 'ipv6'):
                    want_ip = ipaddress.ip_address(exp_host.decode())
                    good = [c for c in connects if isinstance(c, tuple) and len(c) >= 2
                            and _is_ip(c[0]) and ipaddress.ip_address(c[0]) == want_ip and c[1] == ref['port']]
                    if looks:
                        names = [l[0] for l in looks]
                        if any((n if isinstance(n, bytes) else str(n).encode('utf-8')).strip(b'[]') != exp_host for n in names):
                            bad.append(('lookup-of-other-host', sample['lookups']))
                        elif any(b'[' in (n if isinstance(n, bytes) else str(n).encode('utf-8')) for n in names):
                            bad.append(('ipv6-literal-resolved-with-brackets', sample['lookups']))
                    if not good and not bad:
                        bad.append(('no-connect-to-named-address', sample['connects']))
                    if len(connects) > len(good):
                        bad.append(('connect-to-other-address', sample['connects']))
                else:
                    names = []
                    for (h, prt) in looks:
                        hb = h if isinstance(h, bytes) else str(h).encode('utf-8')
                        names.append((hb, int(prt) if prt is not None else None))
                    if not names:
                        bad.append(('name-never-resolved', sample['connects']))
                    for (hb, prt) in names:
                        if hb.lower() != exp_host.lower():
                            bad.append(('lookup-of-other-host', (hb, exp_host)))
                        if prt != ref['port']:
                            bad.append(('lookup-port', (prt, ref['port'])))
                    for c in connects:
                        if not (isinstance(c, tuple) and c[0] == ip and c[1] == ref['port']):
                            bad.append(('connect-to-other-address', sample['connects']))
                if origin is not None and not bad:
                    if 'oc' not in oc_box:
                        bad.append(('origin-not-reached', {'client': bytes(client.rx[:100]), 'connects': sample['connects']}))
                    elif not connect:
                        reqs, rerr, _ = h11util.parse_requests(bytes(oc_box['oc'].rx))
                        if not reqs:
                            bad.append(('origin-got-no-request', rerr))
                        elif reqs[0]['target'] != ref['path']:
                            bad.append(('origin-path', (reqs[0]['target'], ref['path'])))
                        else:
                            obs['origin_path_checked'] = 1
                    else:
                        obs['tunnel_established'] = 1 if code == 200 else 0
                for (what, d) in bad:
                    k = 'live|%s|%s' % (cls, what)
                    if what == 'origin-path':
                        k += '|path-' + pk
                    viol.append({'key': k, 'detail': {'target': target, 'diff': d, 'client': bytes(client.rx[:100])}})
        except LockTimeout:
            inconclusive = 'v6-loopback-lock-timeout'
        except LoopDied as e:
            viol.append({'key': 'live|%s|loop-died:%s' % (cls, e.where()), 'detail': {'target': target, 'tb': e.tb[-800:]}})
        finally:
            audit.stop()
            rig.close()
            excl.close()
    obs['form:' + case['form']] = 1
    obs['host:' + case['host']] = 1
    nontrivial = case['host'] != 'ldh' or case['port'] != 'absent' or bool(case.get('userinfo'))
    return {'viol': viol, 'nontrivial': nontrivial, 'sig': target.decode('latin-1') + '/' + case['mode'], 'obs': obs,
            'sets': {'classes': {cls}}, 'inconclusive': inconclusive, 'sample': sample}


def run_port_wrap(case: Dict[str, Any], rng: random.Random) -> Dict[str, Any]:
    """A port number beyond 65535 names no port at all: the target must be rejected, and in particular it must not be
    routed to (port mod 65536).  A listener waits exactly there, on the address the host names."""
    connect = case['form'] == 'authority'
    hk = case['host']
    cls = '%s|%s|port-wrap' % (case['form'], hk)
    viol: List[Dict[str, Any]] = []
    obs: Dict[str, int] = {'port_wrap': 1}
    inconclusive = None
    sample: Dict[str, Any] = {}
    flags = make_flags([], cache_key='c14')
    shim.S.reset()
    rig = StepRig(flags, 'local')
    excl = contextlib.ExitStack()
    try:
        mapping: Dict[str, str] = {}
        if hk == 'ipv4':
            ip = '127.%d.%d.%d' % (rng.randint(0, 250), rng.randint(0, 250), rng.randint(2, 250))
            host = ip.encode()
        elif hk == 'ipv6':
            if not excl.enter_context(env.exclusive('v6-loopback')):
                raise LockTimeout()
            ip = '::1'
            host = b'[' + rng.choice(V6).encode() + b']'
        elif hk == 'localhost':
            ip = '127.0.0.1'
            host = b'localhost'
        else:
            ip = '127.%d.%d.%d' % (rng.randint(0, 250), rng.randint(0, 250), rng.randint(2, 250))
            host = (G.token(rng, 1, 10).lower().strip(b'-_') or b'a') + b'.test'
            mapping[host.decode()] = ip
        origin = rig.add_origin(ip, 0)
        variant = case.get('variant', 'port-wrap')
        if variant == 'nonutf8-host':
            # a host that is not text at all, but spells a real host once its undecodable bytes are dropped
            junk = rng.choice([b'\xff', b'\xfe', b'\xc0', b'\xc3', b'\xe2\x82', b'\xc0\xae'])
            base = host.strip(b'[]')
            at = rng.randint(1, len(base))
            host = base[:at] + junk + base[at:]
            if hk == 'ipv6':
                host = b'[' + host + b']'
            cls = '%s|%s|nonutf8-host' % (case['form'], hk)
            port = origin.port
        else:
            port = origin.port + 65536 * case['k']
        target = (host + b':%d' % port) if connect else (b'http://' + host + b':%d' % port + b'/wrapped')
        sample = {'target': target, 'listener': '%s:%d' % (ip, origin.port)}
        lookups = resolver.reset(mapping)
        if hk == 'localhost':
            resolver.passthrough.add('localhost')
        alog = audit.start()
        client = rig.add_client('unix')
        if connect:
            client.send(b'CONNECT ' + target + b' HTTP/1.1\r\nHost: ' + target + b'\r\n\r\n')
        else:
            client.send(b'GET ' + target + b' HTTP/1.1\r\nHost: ' + host + b'\r\n\r\n')
        box: Dict[str, Any] = {}

        def done() -> bool:
            if 'oc' not in box:
                pc = origin.accept()
                if pc is not None:
                    box['oc'] = pc
            return client.ended or b'\r\n\r\n' in client.rx or 'oc' in box
        rig.until(done, [client], idle_timeout=0.3)
        rig.settle([client], quiet=4)
        done()
        audit.stop()
        connects = [a for (ev, a) in alog if ev == 'socket.connect']
        sample['connects'] = [repr(c) for c in connects]
        sample['lookups'] = [repr(l) for l in lookups]
        obs['connect_events'] = len(connects)
        msgs, err, _ = h11util.parse_responses(bytes(client.rx), [b'CONNECT' if connect else b'GET'], eof=client.eof)
        code = msgs[0]['code'] if msgs else None
        wrapped = [c for c in connects if isinstance(c, tuple) and len(c) >= 2 and c[1] == origin.port]
        if 'oc' in box or wrapped:
            viol.append({'key': 'live|%s|%s' % (cls, 'out-of-range-port-routed-to-port-mod-65536' if variant == 'port-wrap' else 'uninterpretable-host-routed-to-a-real-host'),
                         'detail': {'target': target, 'listener': sample['listener'], 'connects': sample['connects'],
                                    'lookups': sample['lookups'], 'client': bytes(client.rx[:120])}})
        elif not ((code is not None and code >= 400) or (client.ended and not client.rx)):
            viol.append({'key': 'live|%s|damaged-target-no-rejection' % cls, 'detail': {'target': target, 'client': bytes(client.rx[:120])}})
        else:
            obs['port_wrap_rejected'] = 1
            obs['rejected'] = 1
    except LockTimeout:
        inconclusive = 'v6-loopback-lock-timeout'
    except LoopDied as e:
        viol.append({'key': 'live|%s|loop-died:%s' % (cls, e.where()), 'detail': {'tb': e.tb[-800:], 'sample': sample}})
    finally:
        audit.stop()
        rig.close()
        excl.close()
    return {'viol': viol, 'nontrivial': True, 'sig': '%s/%s/%s/wrap' % (case['form'], hk, case['k']), 'obs': obs,
            'sets': {'classes': {cls}}, 'inconclusive': inconclusive, 'sample': sample}


def _is_ip(s: Any) -> bool:
    try:
        ipaddress.ip_address(s)
        return True
    except Exception:
        return False


HOSTS = ['ldh', 'sub', 'upper', 'utf8', 'punycode', 'long', 'ipv4', 'ipv6', 'ipv6-other']
PORTS = ['absent', 'empty', '0', '1', '80', '443', '65535', 'leading0', 'rand']
PATHS = ['none', 'root', 'plain', 'query', 'colon-at', 'url-in-query', 'query-only', 'query-slash', 'query-at', 'query-url',
         'frag-slash', 'frag-at', 'encoded', 'double-slash', 'reserved']
DAMAGE = ['no-close-bracket', 'no-open-bracket', 'alpha-port', 'two-at', 'huge-port', 'neg-port', 'empty-host']


def cases(tier: str, seed: int):
    rng = random.Random('c14cases:%d' % seed)
    i = 0
    reps = 3 if tier == 'quick' else 30
    # direct: the full class grid
    for _ in range(reps):
        for form in ('absolute', 'authority'):
            for h in HOSTS:
                for p in PORTS:
                    for ui in ((False, True) if form == 'absolute' else (False,)):
                        for path in (PATHS if form == 'absolute' else ['n/a']):
                            i += 1
                            yield {'seed': seed, 'i': i, 'mode': 'direct', 'form': form, 'host': h, 'port': p, 'userinfo': ui, 'path': path}
        for d in DAMAGE:
            for form in ('absolute', 'authority'):
                for h in ('ldh', 'ipv4', 'ipv6'):
                    i += 1
                    yield {'seed': seed, 'i': i, 'mode': 'direct', 'form': form, 'host': h, 'port': rng.choice(['absent', '80', 'rand']),
                           'userinfo': False, 'path': 'plain', 'damage': d}
    # live: every (form x host x port) class with sampled path/userinfo, plus damaged ones
    for _ in range(reps):
        for form in ('absolute', 'authority'):
            for h in HOSTS:
                for p in PORTS:
                    i += 1
                    yield {'seed': seed, 'i': i, 'mode': 'live', 'form': form, 'host': h, 'port': p,
                           'userinfo': rng.random() < 0.3, 'path': rng.choice(PATHS), 'host_field': rng.choice(['same', 'other-port'])}
        for d in DAMAGE:
            for form in ('absolute', 'authority'):
                for h in ('ldh', 'ipv4', 'ipv6'):
                    i += 1
                    yield {'seed': seed, 'i': i, 'mode': 'live', 'form': form, 'host': h, 'port': rng.choice(['absent', '80', 'rand']),
                           'userinfo': False, 'path': 'plain', 'damage': d}
        for path in PATHS:
            for h in ('ldh', 'ipv4', 'ipv6'):
                i += 1
                yield {'seed': seed, 'i': i, 'mode': 'live', 'form': 'absolute', 'host': h, 'port': 'rand', 'userinfo': True, 'path': path}
        for form in ('absolute', 'authority'):
            for h in ('ldh', 'ipv4', 'ipv6', 'localhost'):
                for k in (1, 2, 65536):
                    i += 1
                    yield {'seed': seed, 'i': i, 'mode': 'port-wrap', 'form': form, 'host': h, 'port': 'wrap', 'k': k}
            for h in ('ldh', 'ipv4', 'ipv6', 'localhost'):
                for k in (1, 2):
                    i += 1
                    yield {'seed': seed, 'i': i, 'mode': 'port-wrap', 'variant': 'nonutf8-host', 'form': form, 'host': h, 'port': 'n/a', 'k': k}


def floors(tier: str) -> Dict[str, int]:
    return {'direct_valid': 1000, 'direct_damaged': 20, 'live_valid': 100, 'connect_events': 60, 'lookup_events': 40,
            'origin_path_checked': 20, 'tunnel_established': 10, 'distinct:classes': 150,
            'port_wrap': 40, 'host_field_names_other_port': 40}


if __name__ == '__main__':
    raise SystemExit(driver.main(__import__('checks.c14', fromlist=['x'])))

"""C18 — the event bus delivers each event to every current subscriber exactly once, in order.

Direct rig: the real EventDispatcher is stepped one event at a time (handle_event for the
exhaustively enumerated histories, run_once over the real EventQueue(multiprocessing.Queue)
for random ones) with real multiprocessing.Pipe subscriber channels whose read ends the
harness owns and may break.  Every subscriber's received sequence is compared with a
sequential pub/sub model.  A threaded stress part runs the real dispatcher thread with
concurrent publishers and real EventSubscriber relay threads.
"""
import os
import time
import queue
import random
import threading
import itertools
import multiprocessing
from typing import Any, Dict, List, Optional, Tuple

from rig import env, driver

env.quiet_logging()

from proxy.core.event import EventQueue, EventDispatcher, EventSubscriber, eventNames     # noqa: E402

PROPERTY = 'C18'
# Work in progress, not registered: the first full run (quick, seed 1) took 277 s, lost a shard to the watchdog and
# reported stress-phase differences that have not been triaged (harness ack time-outs vs. the dispatcher).  No verdict
# on C18 is claimed until that is done; bin/mkmanifest lists the property as not claimed.
DISABLED = ('check not finished in this round: checks/c18.py exists but its stress phase is neither bounded nor triaged '
            '(DESIGN.md \u00a73 C18); no verdict is claimed')
LEVEL = 'exploration'
LEVEL_TEXT = ('Exploration with an exhaustive sub-space: every history over {subscribe, unsubscribe (also repeated / '
              'unknown ids), publish, break channel (reader closed with or without unread data; duplex and simplex '
              'pipes)} with <= 3 subscribers up to length 5 (quick) / 6 (thorough), random histories to length 40 '
              'through the real multiprocessing queue, and threaded stress with the real dispatcher thread. Each '
              'subscriber channel transcript is checked against a sequential pub/sub model.')
LEVEL_NOTE = 'Trusted: the sequential model in this file; unique event ids make histories unambiguous.'
TECHNIQUE = 'offline history checking: per-subscriber channel transcripts vs a sequential pub/sub model, unique event ids'
RULE = ('case = one history (list of operations) or one stress run; non-trivial = history has >= 2 subscribers and >= 1 '
        'publish, or contains a channel breakage; distinct = operation sequence')
ASSUMPTIONS = ['subscriber ids are unique per subscription (re-subscribing a live id is left undefined by the property)']
SHARDS = {'quick': 8, 'thorough': 16}
BUDGET_S = {'quick': 45, 'thorough': 800}
EXHAUSTIVE = {'quick': ['all canonical histories up to length 5 over 3 subscribers'],
              'thorough': ['all canonical histories up to length 6 over 3 subscribers']}

SUBSCRIBED, UNSUBSCRIBED = eventNames.SUBSCRIBED, eventNames.UNSUBSCRIBED


class Sub:
    def __init__(self, sid: str, duplex: bool) -> None:
        self.sid = sid
        if duplex:
            self.recv, self.send = multiprocessing.Pipe()
        else:
            self.recv, self.send = multiprocessing.Pipe(duplex=False)
        self.got: List[Any] = []
        self.broken = False
        self.expected: List[Any] = []
        self.subscribed = False
        self.ended = False      # model: unsubscribed (ack expected, nothing afterwards)

    def drain(self) -> None:
        if self.broken:
            return
        try:
            while self.recv.poll(0):
                ev = self.recv.recv()
                if ev.get('event_name') in (SUBSCRIBED, UNSUBSCRIBED):
                    self.got.append(('ack', ev['event_name']))
                else:
                    self.got.append(('ev', ev['event_payload']['id']))
        except (EOFError, OSError):
            pass

    def close(self) -> None:
        for c in (self.recv, self.send):
            try:
                c.close()
            except Exception:
                pass


def run_history(ops: List[List[Any]], via_queue: bool, duplex: bool) -> Tuple[List[Tuple[str, Any]], Dict[str, int]]:
    """Executes one history against the real dispatcher.  Returns (failures, counters)."""
    mpq: Any = multiprocessing.Queue() if via_queue else None
    eq = EventQueue(mpq if via_queue else queue.Queue())
    disp = EventDispatcher(shutdown=threading.Event(), event_queue=eq)
    subs: Dict[str, Sub] = {}
    live_model: List[str] = []      # model: currently subscribed ids in subscription order
    bad: List[Tuple[str, Any]] = []
    evid = 0
    counters = {'ops': 0, 'deliveries_checked': 0, 'breaks': 0}

    def process() -> None:
        try:
            if via_queue:
                disp.run_once()
            else:
                disp.handle_event(eq.queue.get_nowait())
        except queue.Empty:
            bad.append(('event-not-in-queue', None))
        except Exception as e:
            bad.append(('dispatcher-raised:%s' % type(e).__name__, repr(e)[:200]))

    try:
        for op in ops:
            counters['ops'] += 1
            kind = op[0]
            if kind == 'sub':
                sid = op[1]
                s = Sub(sid, duplex)
                subs[sid] = s
                eq.subscribe(sid, s.send)
                process()
                s.subscribed = True
                s.expected.append(('ack', SUBSCRIBED))
                live_model.append(sid)
            elif kind == 'unsub':
                sid = op[1]
                eq.unsubscribe(sid)
                process()
                if sid in live_model:
                    live_model.remove(sid)
                    subs[sid].expected.append(('ack', UNSUBSCRIBED))
                    subs[sid].ended = True
            elif kind == 'pub':
                evid += 1
                eq.publish(request_id='r', event_name=eventNames.WORK_STARTED, event_payload={'id': evid}, publisher_id='h')
                process()
                for sid in live_model:
                    subs[sid].expected.append(('ev', evid))
            elif kind == 'break':
                sid, unread = op[1], op[2]
                s = subs.get(sid)
                if s is None or s.broken:
                    continue
                counters['breaks'] += 1
                if not unread:
                    s.drain()
                s.broken = True
                s.recv.close()
                # the model learns about the breakage when the dispatcher next sends to it; from the
                # other subscribers' point of view nothing changes, which is all the oracle demands
            for s in subs.values():
                s.drain()
        # verdicts
        for sid, s in subs.items():
            if s.broken:
                # only what it read before breaking: must be a prefix of the model sequence
                if s.got != s.expected[:len(s.got)]:
                    bad.append(('broken-subscriber-prefix-differs', {'got': s.got, 'expected': s.expected}))
                continue
            counters['deliveries_checked'] += len(s.expected)
            if s.got != s.expected:
                exp_set, got_set = [x for x in s.expected], [x for x in s.got]
                if len(got_set) > len(set(got_set)):
                    kind = 'duplicate-delivery'
                elif [x for x in got_set if x in exp_set] == got_set and len(got_set) < len(exp_set):
                    kind = 'lost-delivery'
                elif sorted(map(str, got_set)) == sorted(map(str, exp_set)):
                    kind = 'reordered-delivery'
                elif any(x not in exp_set for x in got_set):
                    kind = 'unexpected-delivery'
                else:
                    kind = 'sequence-differs'
                bad.append((kind, {'sid': sid, 'got': s.got, 'expected': s.expected}))
        # dispatcher's own registry must agree with the model for live, unbroken subscribers
        for sid in live_model:
            if not subs[sid].broken and sid not in disp.subscribers:
                bad.append(('live-subscriber-dropped', sid))
    finally:
        for s in subs.values():
            s.close()
        for c in list(disp.subscribers.values()):
            try:
                c.close()
            except Exception:
                pass
        if mpq is not None:
            mpq.close()
            mpq.join_thread()
    return bad, counters


def feature(ops: List[List[Any]], duplex: bool) -> str:
    f = ['duplex' if duplex else 'simplex']
    if any(o[0] == 'break' and o[2] for o in ops):
        f.append('break-with-unread-data')
    elif any(o[0] == 'break' for o in ops):
        f.append('break-drained')
    return '+'.join(f)


def stress(case: Dict[str, Any]) -> Tuple[List[Tuple[str, Any]], Dict[str, int]]:
    """Real dispatcher thread, concurrent publishers, raw-pipe subscribers read by harness threads
    plus real EventSubscriber relay threads."""
    rng = random.Random('c18s:%s:%s' % (case['seed'], case['i']))
    import sys
    sys.setswitchinterval(1e-5)
    mpq = multiprocessing.Queue()
    eq = EventQueue(mpq)
    shutdown = threading.Event()
    disp = EventDispatcher(shutdown=shutdown, event_queue=eq)
    dt = threading.Thread(target=disp.run, daemon=True)
    dt.start()
    bad: List[Tuple[str, Any]] = []
    npub, per, nsub = case['publishers'], case['events'], case['subscribers']
    # raw subscribers (whole-run): subscribe, wait for ack, ... , unsubscribe, wait for ack
    raws = []
    for k in range(nsub):
        r, s = multiprocessing.Pipe()
        raws.append({'sid': 'raw%d' % k, 'recv': r, 'send': s, 'got': [], 'acks': []})
        eq.subscribe('raw%d' % k, s)
    relay_got: List[Any] = []
    relay = EventSubscriber(eq, callback=lambda ev: relay_got.append(ev['event_payload'].get('id')))
    relay.setup()

    def wait_ack(sub: Dict[str, Any], name: int, timeout: float = 10.0) -> bool:
        end = time.time() + timeout
        while time.time() < end:
            if sub['recv'].poll(0.05):
                ev = sub['recv'].recv()
                if ev.get('event_name') in (SUBSCRIBED, UNSUBSCRIBED):
                    sub['acks'].append(ev['event_name'])
                    if ev['event_name'] == name:
                        return True
                else:
                    sub['got'].append(ev['event_payload']['id'])
        return False
    inconclusive = None
    try:
        for sub in raws:
            if not wait_ack(sub, SUBSCRIBED):
                inconclusive = 'no-subscribe-ack'
        time.sleep(0.05)    # the relay subscriber has no observable ack: give its SUBSCRIBE time to be processed

        def publisher(p: int) -> None:
            for n in range(per):
                eq.publish(request_id='r', event_name=eventNames.WORK_STARTED, event_payload={'id': [p, n]}, publisher_id='p%d' % p)
                if rng.random() < 0.1:
                    time.sleep(0)
        ths = [threading.Thread(target=publisher, args=(p,)) for p in range(npub)]
        for t in ths:
            t.start()
        for t in ths:
            t.join()
        total = npub * per
        # a mid-stream subscriber that breaks its channel with unread data (must not disturb the others)
        if case.get('breaker'):
            r2, s2 = multiprocessing.Pipe()
            eq.subscribe('breaker', s2)
            eq.publish(request_id='r', event_name=eventNames.WORK_STARTED, event_payload={'id': [99, 0]}, publisher_id='x')
            time.sleep(0.02)
            r2.close()
            for n in range(1, 4):
                eq.publish(request_id='r', event_name=eventNames.WORK_STARTED, event_payload={'id': [99, n]}, publisher_id='x')
            total += 4
        for sub in raws:
            eq.unsubscribe(sub['sid'])
        for sub in raws:
            if not wait_ack(sub, UNSUBSCRIBED):
                if not dt.is_alive():
                    bad.append(('dispatcher-thread-died', None))
                    break
                inconclusive = inconclusive or 'no-unsubscribe-ack'
        end = time.time() + 5
        while len(relay_got) < total and time.time() < end and dt.is_alive():
            time.sleep(0.01)
        # oracle
        ref = [tuple(x) for x in raws[0]['got']] if raws else []
        for sub in raws:
            got = [tuple(x) for x in sub['got']]
            if len(got) != len(set(got)):
                bad.append(('stress-duplicate', sub['sid']))
            if len(set(got)) != total and not bad:
                bad.append(('stress-lost', {'sid': sub['sid'], 'got': len(set(got)), 'expected': total}))
            if got != ref:
                bad.append(('stress-subscribers-disagree-on-order', sub['sid']))
            for p in range(npub):
                seq = [n for (pp, n) in got if pp == p]
                if seq != sorted(seq):
                    bad.append(('stress-publisher-order-violated', {'sid': sub['sid'], 'publisher': p}))
        rg = [tuple(x) for x in relay_got if x is not None]
        if len(rg) != len(set(rg)):
            bad.append(('stress-relay-duplicate', None))
        if len(set(rg)) != total and not inconclusive and dt.is_alive():
            bad.append(('stress-relay-lost', {'got': len(set(rg)), 'expected': total}))
        if not dt.is_alive():
            bad.append(('dispatcher-thread-died', None))
    finally:
        shutdown.set()
        try:
            relay.shutdown()
        except Exception:
            pass
        dt.join(timeout=3)
        for sub in raws:
            sub['recv'].close()
            sub['send'].close()
        mpq.close()
        mpq.join_thread()
    c = {'stress_events': npub * per, 'stress_deliveries_checked': sum(len(s['got']) for s in raws) + len(relay_got)}
    if inconclusive:
        c['_inconclusive'] = 1
    return bad, c


def run_case(case: Dict[str, Any]) -> Dict[str, Any]:
    if case['kind'] == 'stress':
        bad, counters = stress(case)
        inconc = 'stress-ack-timeout' if counters.pop('_inconclusive', 0) else None
        feat = 'stress' + ('+breaker' if case.get('breaker') else '')
        return {'viol': [{'key': '%s|%s' % (feat, w), 'detail': d} for (w, d) in bad], 'nontrivial': True,
                'sig': 'stress/%s' % case['i'], 'obs': dict(counters, stress_runs=1), 'inconclusive': inconc,
                'sample': {'kind': 'stress', 'case': case}}
    viol: Dict[str, Dict[str, Any]] = {}
    obs: Dict[str, int] = {'histories': 0}
    nontriv = 0
    samples = []
    for ops in case['histories']:
        for duplex in case['pipes']:
            bad, counters = run_history(ops, case['via_queue'], duplex)
            obs['histories'] += 1
            for k, v in counters.items():
                obs[k] = obs.get(k, 0) + v
            feat = feature(ops, duplex)
            nsubs = len({o[1] for o in ops if o[0] == 'sub'})
            if (nsubs >= 2 and any(o[0] == 'pub' for o in ops)) or 'break' in feat:
                nontriv += 1
            for (w, d) in bad:
                key = '%s|%s' % (feat, w)
                viol.setdefault(key, {'key': key, 'detail': {'history': ops, 'duplex': duplex, 'diff': d}})
            if len(samples) < 2:
                samples.append({'history': ops, 'duplex': duplex})
    obs['nontrivial_histories'] = nontriv
    obs['via_queue' if case['via_queue'] else 'direct'] = obs['histories']
    return {'viol': list(viol.values()), 'nontrivial': nontriv > 0, 'sig': str(hash(str(case['histories']))),
            'obs': obs, 'sample': samples}


def canonical_histories(maxlen: int, nsubs: int = 3):
    """All histories up to maxlen; subscribers are introduced in index order; 'sub' only for an id not
    used before; 'break' only for a subscribed, unbroken id; 'unsub' for any id (known, unknown, repeated)."""
    def rec(prefix: List[List[Any]], used: int, live: Tuple[str, ...], broken: Tuple[str, ...]):
        if prefix:
            yield list(prefix)
        if len(prefix) >= maxlen:
            return
        if used < nsubs:
            sid = 's%d' % used
            yield from rec(prefix + [['sub', sid]], used + 1, live + (sid,), broken)
        for k in range(min(used + 1, nsubs)):
            sid = 's%d' % k
            yield from rec(prefix + [['unsub', sid]], used, tuple(x for x in live if x != sid), broken)
        yield from rec(prefix + [['pub']], used, live, broken)
        for sid in live:
            if sid not in broken:
                for unread in (False, True):
                    yield from rec(prefix + [['break', sid, unread]], used, live, broken + (sid,))
    yield from rec([], 0, (), ())


def cases(tier: str, seed: int):
    i = 0
    maxlen = 5 if tier == 'quick' else 6
    block: List[Any] = []
    for h in canonical_histories(maxlen):
        # a history that never subscribes anyone exercises nothing
        if not any(o[0] == 'sub' for o in h):
            continue
        block.append(h)
        if len(block) >= 60:
            i += 1
            yield {'seed': seed, 'i': i, 'kind': 'hist', 'histories': block, 'via_queue': False, 'pipes': [True, False]}
            block = []
    if block:
        i += 1
        yield {'seed': seed, 'i': i, 'kind': 'hist', 'histories': block, 'via_queue': False, 'pipes': [True, False]}
    rng = random.Random('c18:%d' % seed)
    for _ in range(40 if tier == 'quick' else 1500):
        hs = []
        for _ in range(4):
            n = rng.randint(6, 40)
            h: List[List[Any]] = []
            used, live, broken = 0, [], []
            for _ in range(n):
                r = rng.random()
                if r < 0.2 and used < 3:
                    sid = 's%d' % used
                    used += 1
                    live.append(sid)
                    h.append(['sub', sid])
                elif r < 0.32:
                    sid = 's%d' % rng.randint(0, 3)
                    if sid in live:
                        live.remove(sid)
                    h.append(['unsub', sid])
                elif r < 0.42 and [x for x in live if x not in broken]:
                    sid = rng.choice([x for x in live if x not in broken])
                    broken.append(sid)
                    h.append(['break', sid, rng.random() < 0.5])
                else:
                    h.append(['pub'])
            hs.append(h)
        i += 1
        yield {'seed': seed, 'i': i, 'kind': 'hist', 'histories': hs, 'via_queue': True, 'pipes': [rng.random() < 0.7]}
    for k in range(6 if tier == 'quick' else 120):
        i += 1
        yield {'seed': seed, 'i': i, 'kind': 'stress', 'publishers': rng.choice([1, 2, 4, 8]), 'events': rng.choice([50, 200, 500]),
               'subscribers': rng.choice([1, 2, 3]), 'breaker': k % 2 == 1}


def floors(tier: str) -> Dict[str, int]:
    return {'histories': 3000, 'nontrivial_histories': 1000, 'breaks': 500, 'deliveries_checked': 5000, 'via_queue': 100,
            'stress_runs': 4, 'stress_deliveries_checked': 1000}


if __name__ == '__main__':
    raise SystemExit(driver.main(__import__('checks.c18', fromlist=['x'])))

"""C18 — the event bus delivers each event to every current subscriber exactly once, in order.

Direct rig: the real EventDispatcher is stepped one event at a time (handle_event for the
exhaustively enumerated histories, run_once over the real EventQueue(multiprocessing.Queue)
for random ones) with real multiprocessing.Pipe subscriber channels whose read ends the
harness owns and may break.  Every subscriber's received sequence is compared with a
sequential pub/sub model.  A threaded stress part runs the real dispatcher thread with
concurrent publishers and real EventSubscriber relay threads.
"""
import os
import time
import queue
import random
import threading
import itertools
import multiprocessing
from typing import Any, Dict, List, Optional, Tuple

from rig import env, driver

env.quiet_logging()

from proxy.core.event import EventQueue, EventDispatcher, EventSubscriber, eventNames     # noqa: E402

PROPERTY = 'C18'
LEVEL = 'exploration'
LEVEL_TEXT = ('Exploration with an exhaustive sub-space: every history over {subscribe, unsubscribe (also repeated / '
              'unknown ids), publish, break channel (reader closed with or without unread data; duplex and simplex '
              'pipes)} with <= 3 subscribers up to length 5 (quick) / 6 (thorough), random histories to length 40 '
              'through the real multiprocessing queue, and threaded stress: the real dispatcher thread, concurrent '
              'publisher threads, whole-run / mid-stream / channel-breaking subscribers each drained by its own thread, '
              'a real EventSubscriber relay, repeated and unknown unsubscribes. Each subscriber channel transcript is '
              'checked against a sequential pub/sub model (stress: must/may delivery windows from publish counters).')
LEVEL_NOTE = 'Trusted: the sequential model in this file; unique event ids make histories unambiguous.'
TECHNIQUE = 'offline history checking: per-subscriber channel transcripts vs a sequential pub/sub model, unique event ids'
RULE = ('case = one history (list of operations) or one stress run; non-trivial = history has >= 2 subscribers and >= 1 '
        'publish, or contains a channel breakage; distinct = operation sequence')
ASSUMPTIONS = ['subscriber ids are unique per subscription (re-subscribing a live id is left undefined by the property)']
SHARDS = {'quick': 8, 'thorough': 16}
BUDGET_S = {'quick': 45, 'thorough': 800}
EXHAUSTIVE = {'quick': ['all canonical histories up to length 5 over 3 subscribers'],
              'thorough': ['all canonical histories up to length 6 over 3 subscribers']}

SUBSCRIBED, UNSUBSCRIBED = eventNames.SUBSCRIBED, eventNames.UNSUBSCRIBED


def dispose_queue(mpq: Any) -> None:
    """Empty and close a multiprocessing.Queue whose consumer may have died: its feeder thread blocks on a
    full pipe otherwise and join_thread() never returns."""
    try:
        while True:
            mpq.get(timeout=0.05)
    except Exception:
        pass
    mpq.close()
    mpq.cancel_join_thread()


class Sub:
    def __init__(self, sid: str, duplex: bool) -> None:
        self.sid = sid
        if duplex:
            self.recv, self.send = multiprocessing.Pipe()
        else:
            self.recv, self.send = multiprocessing.Pipe(duplex=False)
        self.got: List[Any] = []
        self.broken = False
        self.expected: List[Any] = []
        self.subscribed = False
        self.ended = False      # model: unsubscribed (ack expected, nothing afterwards)

    def drain(self) -> None:
        if self.broken:
            return
        try:
            while self.recv.poll(0):
                ev = self.recv.recv()
                if ev.get('event_name') in (SUBSCRIBED, UNSUBSCRIBED):
                    self.got.append(('ack', ev['event_name']))
                else:
                    pl = ev.get('event_payload')
                    if isinstance(pl, dict) and 'id' in pl:
                        self.got.append(('ev', pl['id']))
                    else:
                        # not an acknowledgement and not anything that was published: the channel carries a message of
                        # the bus's own making
                        self.got.append(('stray', ev.get('event_name')))
        except (EOFError, OSError):
            pass

    def close(self) -> None:
        for c in (self.recv, self.send):
            try:
                c.close()
            except Exception:
                pass


def run_history(ops: List[List[Any]], via_queue: bool, duplex: bool) -> Tuple[List[Tuple[str, Any]], Dict[str, int]]:
    """Executes one history against the real dispatcher.  Returns (failures, counters)."""
    mpq: Any = multiprocessing.Queue() if via_queue else None
    eq = EventQueue(mpq if via_queue else queue.Queue())
    disp = EventDispatcher(shutdown=threading.Event(), event_queue=eq)
    subs: Dict[str, Sub] = {}
    live_model: List[str] = []      # model: currently subscribed ids in subscription order
    bad: List[Tuple[str, Any]] = []
    evid = 0
    counters = {'ops': 0, 'deliveries_checked': 0, 'breaks': 0}
    retired: List[Sub] = []         # channels given up by a re-subscribing id (no verdict on them beyond cleanup)

    def process() -> None:
        try:
            if via_queue:
                # the multiprocessing queue hands a put to its feeder thread: on a loaded machine the event may surface later
                # than run_once()'s own one-second wait; only an event that stays absent for WAIT_S is "not in the queue"
                end = time.time() + WAIT_S
                while True:
                    try:
                        disp.run_once()
                        break
                    except queue.Empty:
                        if time.time() >= end:
                            raise
            else:
                disp.handle_event(eq.queue.get_nowait())
        except queue.Empty:
            bad.append(('event-not-in-queue', None))
        except Exception as e:
            bad.append(('dispatcher-raised:%s' % type(e).__name__, repr(e)[:200]))

    # a subscriber that will break *with unread data* is not drained beforehand (else nothing would be unread)
    keep_unread = {o[1] for o in ops if o[0] == 'break' and o[2]}
    try:
        for op in ops:
            counters['ops'] += 1
            kind = op[0]
            if kind == 'sub':
                sid = op[1]
                s = Sub(sid, duplex)
                subs[sid] = s
                eq.subscribe(sid, s.send)
                process()
                s.subscribed = True
                s.expected.append(('ack', SUBSCRIBED))
                live_model.append(sid)
            elif kind == 'resub':
                # the same id subscribes again on a FRESH channel: after an unsubscribe, after its old channel broke (whether or
                # not the dispatcher has noticed yet), or while the old one is still alive (channel migration).  From its
                # acknowledgement on, the fresh channel is that subscriber: it gets every later event exactly once, in order.
                sid, break_old = op[1], op[2]
                old_s = subs.get(sid)
                if old_s is not None:
                    if break_old and not old_s.broken:
                        old_s.drain()
                        old_s.broken = True
                        old_s.recv.close()
                        counters['breaks'] += 1
                    old_s.drain()
                    retired.append(old_s)
                s = Sub(sid, duplex)
                subs[sid] = s
                eq.subscribe(sid, s.send)
                process()
                s.subscribed = True
                s.expected.append(('ack', SUBSCRIBED))
                if sid not in live_model:
                    live_model.append(sid)
                counters['resubscribes'] = counters.get('resubscribes', 0) + 1
            elif kind == 'unsub':
                sid = op[1]
                eq.unsubscribe(sid)
                process()
                if sid in live_model:
                    live_model.remove(sid)
                    subs[sid].expected.append(('ack', UNSUBSCRIBED))
                    subs[sid].ended = True
            elif kind == 'pub':
                evid += 1
                eq.publish(request_id='r', event_name=eventNames.WORK_STARTED, event_payload={'id': evid}, publisher_id='h')
                process()
                for sid in live_model:
                    subs[sid].expected.append(('ev', evid))
            elif kind == 'break':
                sid, unread = op[1], op[2]
                s = subs.get(sid)
                if s is None or s.broken:
                    continue
                counters['breaks'] += 1
                if not unread:
                    s.drain()
                elif s.recv.poll(0):
                    counters['breaks_with_unread_data'] = counters.get('breaks_with_unread_data', 0) + 1
                s.broken = True
                s.recv.close()
                # the model learns about the breakage when the dispatcher next sends to it; from the
                # other subscribers' point of view nothing changes, which is all the oracle demands
            for s in subs.values():
                if s.sid not in keep_unread:
                    s.drain()
        # verdicts (every unbroken channel is read to its end first: 'keep unread' only matters up to the break)
        for s in subs.values():
            s.drain()
        for sid, s in subs.items():
            if s.broken:
                # only what it read before breaking: must be a prefix of the model sequence
                if s.got != s.expected[:len(s.got)]:
                    bad.append(('broken-subscriber-prefix-differs', {'got': s.got, 'expected': s.expected}))
                continue
            counters['deliveries_checked'] += len(s.expected)
            if s.got != s.expected:
                exp_set, got_set = [x for x in s.expected], [x for x in s.got]
                if len(got_set) > len(set(got_set)):
                    kind = 'duplicate-delivery'
                elif [x for x in got_set if x in exp_set] == got_set and len(got_set) < len(exp_set):
                    kind = 'lost-delivery'
                elif sorted(map(str, got_set)) == sorted(map(str, exp_set)):
                    kind = 'reordered-delivery'
                elif any(x not in exp_set for x in got_set):
                    kind = 'unexpected-delivery'
                else:
                    kind = 'sequence-differs'
                bad.append((kind, {'sid': sid, 'got': s.got, 'expected': s.expected}))
        # dispatcher's own registry must agree with the model for live, unbroken subscribers
        for sid in live_model:
            if not subs[sid].broken and sid not in disp.subscribers:
                bad.append(('live-subscriber-dropped', sid))
    finally:
        for s in list(subs.values()) + retired:
            s.close()
        for c in list(disp.subscribers.values()):
            try:
                c.close()
            except Exception:
                pass
        if mpq is not None:
            dispose_queue(mpq)
    return bad, counters


def feature(ops: List[List[Any]], duplex: bool) -> str:
    f = ['duplex' if duplex else 'simplex']
    if any(o[0] == 'break' and o[2] for o in ops):
        f.append('break-with-unread-data')
    elif any(o[0] == 'break' for o in ops):
        f.append('break-drained')
    if any(o[0] == 'resub' for o in ops):
        f.append('resubscribe')
    return '+'.join(f)


class Reader(threading.Thread):
    """A subscriber process stand-in: owns the read end of its channel and drains it continuously
    (so the dispatcher never blocks on a full pipe), recording everything in arrival order."""

    def __init__(self, sid: str, duplex: bool) -> None:
        super().__init__(daemon=True)
        self.sid = sid
        if duplex:
            self.recv, self.send = multiprocessing.Pipe()
        else:
            self.recv, self.send = multiprocessing.Pipe(duplex=False)
        self.got: List[Tuple[int, int]] = []      # (publisher, n) in arrival order
        self.log: List[Any] = []                  # everything, incl. acks, in arrival order
        self.subscribed = threading.Event()
        self.unsubscribed = threading.Event()
        self.eof = threading.Event()
        self.quit = threading.Event()
        self.after_unsub: List[Any] = []

    def run(self) -> None:
        try:
            while not self.quit.is_set():
                if not self.recv.poll(0.02):
                    continue
                ev = self.recv.recv()
                name = ev.get('event_name')
                if self.unsubscribed.is_set():
                    self.after_unsub.append(name)
                if name == SUBSCRIBED:
                    self.log.append('SUBSCRIBED')
                    self.subscribed.set()
                elif name == UNSUBSCRIBED:
                    self.log.append('UNSUBSCRIBED')
                    self.unsubscribed.set()
                elif name == eventNames.DISPATCHER_SHUTDOWN:
                    self.log.append('SHUTDOWN')
                elif not (isinstance(ev.get('event_payload'), dict) and 'id' in ev['event_payload']):
                    self.got.append(('stray', name))      # type: ignore[arg-type]
                    self.log.append(('stray', name))
                else:
                    pid_n = tuple(ev['event_payload']['id'])
                    self.got.append(pid_n)      # type: ignore[arg-type]
                    self.log.append(pid_n)
        except Exception:       # EOF, or our own close() racing with poll()/recv()
            pass
        finally:
            self.eof.set()

    def close(self) -> None:
        self.quit.set()
        for c in (self.recv, self.send):
            try:
                c.close()
            except Exception:
                pass


WAIT_S = 20.0       # harness waits; expiry while the dispatcher is alive = inconclusive, never a verdict


def stress(case: Dict[str, Any]) -> Tuple[List[Tuple[str, Any]], Dict[str, int]]:
    """Real dispatcher thread over the real multiprocessing queue, concurrent publisher threads, and
    concurrently subscribing / unsubscribing / breaking subscribers, each drained by its own thread.

    Oracle (unique (publisher, n) ids make the history unambiguous):
      * whole-run subscribers (acked before the first publish, unsubscribed after the last) and the real
        EventSubscriber relay receive every event exactly once;
      * a mid-stream subscriber must receive every event whose publish() began after it had read its
        SUBSCRIBED ack and returned before it issued unsubscribe (must-set), may receive events in flight
        around those two instants, and must not receive any event whose publish() had returned before
        it issued subscribe or had not begun when its unsubscribe was already queued;
      * no subscriber sees a duplicate; all sequences embed into one total order (that of whole-run
        subscriber 0), which respects every publisher's program order;
      * nothing arrives after UNSUBSCRIBED; breaking subscribers and repeated / unknown unsubscribes
        leave all of the above intact and the dispatcher thread alive."""
    rng = random.Random('c18s:%s:%s' % (case['seed'], case['i']))
    import sys
    old_si = sys.getswitchinterval()
    sys.setswitchinterval(case.get('switch', 1e-4))
    mpq = multiprocessing.Queue()
    eq = EventQueue(mpq)
    shutdown = threading.Event()
    disp = EventDispatcher(shutdown=shutdown, event_queue=eq)
    dt = threading.Thread(target=disp.run, daemon=True)
    dt.start()
    bad: List[Tuple[str, Any]] = []
    inconclusive: List[str] = []
    npub, per = case['publishers'], case['events']

    def wait(evt: threading.Event) -> bool:
        """Wait for evt, giving up at once when the dispatcher thread is gone (that is the verdict then)."""
        end = time.time() + WAIT_S
        while time.time() < end:
            if evt.wait(0.05):
                return True
            if not dt.is_alive():
                return evt.is_set()
        return False
    dur = case.get('dur', 0.3)
    started = [-1] * npub       # n set before publish(n) begins
    done = [0] * npub           # n+1 set after publish(n) returned
    readers: List[Reader] = []
    relay_got: List[Any] = []
    relay = EventSubscriber(eq, callback=lambda ev: relay_got.append(tuple(ev['event_payload'].get('id') or ())))
    relay.setup()               # its SUBSCRIBE is queued first: processed before the acks awaited below
    whole = []
    for k in range(case['subscribers']):
        r = Reader('whole%d' % k, duplex=(k % 2 == 0))
        r.start()
        readers.append(r)
        whole.append(r)
        eq.subscribe(r.sid, r.send)
    for r in whole:
        if not wait(r.subscribed):
            inconclusive.append('no-subscribe-ack')
    mids: List[Dict[str, Any]] = []
    mid_lock = threading.Lock()

    def mid(k: int, delay: float, hold: float, duplex: bool, breaker: bool) -> None:
        r = Reader(('brk%d' if breaker else 'mid%d') % k, duplex)
        rec: Dict[str, Any] = {'r': r, 'breaker': breaker}
        with mid_lock:
            readers.append(r)
            mids.append(rec)
        time.sleep(delay)
        r.start()
        rec['not_before'] = list(done)          # fully published before subscribe was issued: must not arrive
        eq.subscribe(r.sid, r.send)
        if not wait(r.subscribed):
            rec['noack'] = True
            return
        rec['lo'] = [d + 1 for d in done]       # publish(n) for n >= done+1 began after the ack was read
        time.sleep(hold)
        if breaker:
            r.quit.set()                        # stop reading, then close with whatever is unread
            time.sleep(0.001)
            try:
                r.recv.close()
            except Exception:
                pass
            rec['broke'] = True
            return
        rec['hi'] = list(done)                  # publish(n) for n < done returned before unsubscribe is issued
        eq.unsubscribe(r.sid)
        rec['not_after'] = list(started)        # read once UNSUBSCRIBE is queued: publish(n) for n > started had not begun
        if rng.random() < 0.5:
            eq.unsubscribe(r.sid)               # repeated unsubscribe: a no-op
        if not wait(r.unsubscribed):
            rec['nounack'] = True

    def publisher(p: int) -> None:
        prng = random.Random('pub:%s:%s:%d' % (case['seed'], case['i'], p))
        for n in range(per):
            started[p] = n
            eq.publish(request_id='r', event_name=eventNames.WORK_STARTED, event_payload={'id': [p, n]},
                       publisher_id='p%d' % p)
            done[p] = n + 1
            x = prng.random()
            if x < 0.6:
                time.sleep(dur / per)           # pace: publication lasts about `dur` seconds
            elif x < 0.8:
                time.sleep(0)

    def chaos() -> None:
        for _ in range(case.get('chaos', 10)):
            eq.unsubscribe('nobody-%d' % rng.randint(0, 3))
            time.sleep(0.002)
    try:
        ths = [threading.Thread(target=publisher, args=(p,)) for p in range(npub)]
        span = dur * 0.5
        mts = []
        for k in range(case.get('mids', 0)):
            mts.append(threading.Thread(target=mid, args=(k, rng.random() * span, (0.1 + rng.random()) * span, rng.random() < 0.5, False)))
        for k in range(case.get('breakers', 0)):
            mts.append(threading.Thread(target=mid, args=(k, rng.random() * span, rng.random() * span * 0.5, rng.random() < 0.5, True)))
        ct = threading.Thread(target=chaos)
        for t in ths + mts + [ct]:
            t.start()
        for t in ths + mts + [ct]:
            t.join(WAIT_S * 3)
            if t.is_alive():
                inconclusive.append('harness-thread-stuck')
        total = npub * per
        for r in whole:
            eq.unsubscribe(r.sid)
        for r in whole:
            if not wait(r.unsubscribed):
                if not dt.is_alive():
                    break
                inconclusive.append('no-unsubscribe-ack')
        end = time.time() + WAIT_S
        while len(relay_got) < total and time.time() < end and dt.is_alive():
            time.sleep(0.005)
        if not dt.is_alive():
            bad.append(('dispatcher-thread-died', None))
            del inconclusive[:]     # missing acks are explained by the verdict above
        time.sleep(0.02)        # anything wrongly sent after an UNSUBSCRIBED ack gets a chance to arrive
        # ---- oracle ----
        allids = {(p, n) for p in range(npub) for n in range(per)}
        ref = list(whole[0].got) if whole else []
        pos = {e: i for i, e in enumerate(ref)}
        checked = 0
        if not inconclusive and not bad:
            for r in whole:
                got = r.got
                checked += len(got)
                if len(got) != len(set(got)):
                    bad.append(('stress-duplicate', {'sid': r.sid}))
                elif set(got) != allids:
                    bad.append(('stress-lost', {'sid': r.sid, 'got': len(set(got)), 'expected': total,
                                                'missing_sample': sorted(allids - set(got))[:5]}))
                elif got != ref:
                    bad.append(('stress-subscribers-disagree-on-order', {'sid': r.sid}))
                if r.log[:1] != ['SUBSCRIBED'] or r.log[-1:] != ['UNSUBSCRIBED'] or r.after_unsub:
                    bad.append(('stress-ack-misplaced', {'sid': r.sid, 'head': r.log[:2], 'tail': r.log[-2:],
                                                         'after_unsub': r.after_unsub[:3]}))
            for p in range(npub):
                seq = [n for (pp, n) in ref if pp == p]
                if seq != sorted(seq):
                    bad.append(('stress-publisher-order-violated', {'publisher': p}))
            rg = [x for x in relay_got if x]
            checked += len(rg)
            if len(rg) != len(set(rg)):
                bad.append(('stress-relay-duplicate', None))
            elif set(rg) != allids:
                bad.append(('stress-relay-lost', {'got': len(set(rg)), 'expected': total}))
            elif rg != ref and ref:
                bad.append(('stress-relay-order-differs', None))
            for rec in mids:
                r = rec['r']
                if rec.get('noack') or rec.get('nounack'):
                    if dt.is_alive():
                        inconclusive.append('mid-ack-timeout')
                    continue
                got = list(r.got)
                checked += len(got)
                if len(got) != len(set(got)):
                    bad.append(('stress-mid-duplicate', {'sid': r.sid}))
                idx = [pos.get(e, -1) for e in got]
                if ref and (any(i < 0 for i in idx) or idx != sorted(idx)):
                    bad.append(('stress-mid-order-differs', {'sid': r.sid}))
                for (p, n) in got:
                    if n < rec['not_before'][p]:
                        bad.append(('stress-mid-delivered-event-published-before-subscribe', {'sid': r.sid, 'ev': (p, n)}))
                        break
                if rec['breaker']:
                    continue
                must = {(p, n) for p in range(npub) for n in range(rec['lo'][p], rec['hi'][p])}
                miss = must - set(got)
                if miss:
                    bad.append(('stress-mid-lost', {'sid': r.sid, 'missing': sorted(miss)[:5], 'must': len(must)}))
                for (p, n) in got:
                    if n > rec['not_after'][p]:
                        bad.append(('stress-mid-delivered-event-published-after-unsubscribe', {'sid': r.sid, 'ev': (p, n)}))
                        break
                if r.log[:1] != ['SUBSCRIBED'] or r.log[-1:] != ['UNSUBSCRIBED'] or r.after_unsub:
                    bad.append(('stress-mid-ack-misplaced', {'sid': r.sid, 'head': r.log[:2], 'tail': r.log[-2:],
                                                             'after_unsub': r.after_unsub[:3]}))
    finally:
        sys.setswitchinterval(old_si)
        shutdown.set()
        try:
            relay.shutdown()
        except Exception:
            pass
        dt.join(timeout=3)
        for r in readers:
            r.close()
        for c in list(disp.subscribers.values()):
            try:
                c.close()
            except Exception:
                pass
        dispose_queue(mpq)
    c = {'stress_events': npub * per, 'stress_deliveries_checked': checked,
         'stress_mid_subscribers': sum(1 for m in mids if not m['breaker']),
         'stress_breakers': sum(1 for m in mids if m.get('broke')),
         'stress_mid_must_events': sum(sum(max(0, m['hi'][p] - m['lo'][p]) for p in range(npub)) for m in mids if 'hi' in m)}
    if inconclusive:
        c['_inconclusive'] = 1
    return bad, c


def relay_cycles(case: Dict[str, Any]) -> Tuple[List[Tuple[str, Any]], Dict[str, int]]:
    """One EventSubscriber object taken through several setup() / shutdown() cycles (as the inspect-traffic plugin does on
    enable / disable / enable) against the real dispatcher thread.  Every event published while it is subscribed reaches its
    callback exactly once and in order; nothing published between two cycles does.  A witness subscriber reading a
    sentinel event is the barrier: once it holds the sentinel the dispatcher has fanned out everything published before."""
    rng = random.Random('c18r:%s:%s' % (case['seed'], case['i']))
    mpq = multiprocessing.Queue()
    eq = EventQueue(mpq)
    shutdown = threading.Event()
    disp = EventDispatcher(shutdown=shutdown, event_queue=eq)
    dt = threading.Thread(target=disp.run, daemon=True)
    dt.start()
    bad: List[Tuple[str, Any]] = []
    inconclusive = False
    got: List[Any] = []
    relay = EventSubscriber(eq, callback=lambda ev: got.append(tuple(ev['event_payload'].get('id') or ())))
    # a SECOND relay object of the product, in the same process, subscribed for the whole history: two subscribers are two
    # subscriptions - everything published while it is subscribed (cycle events, the events between cycles, the sentinels)
    # reaches it exactly once and in order, whatever the first relay subscribes and unsubscribes meanwhile
    got2: List[Any] = []
    relay2 = EventSubscriber(eq, callback=lambda ev: got2.append(tuple(ev['event_payload'].get('id') or ()))) if case.get('second_relay') else None
    pub2: List[Any] = []
    second_checked = 0
    wit = Reader('witness', duplex=True)
    wit.start()
    checked = 0
    cycles_done = 0

    def barrier(tag: Any) -> bool:
        eq.publish(request_id='r', event_name=eventNames.WORK_STARTED, event_payload={'id': ['S', tag]}, publisher_id='h')
        end = time.time() + WAIT_S
        while time.time() < end and dt.is_alive():
            if ('S', tag) in wit.got:
                return True
            time.sleep(0.002)
        return ('S', tag) in wit.got
    try:
        eq.subscribe(wit.sid, wit.send)
        end = time.time() + WAIT_S
        while not wit.subscribed.is_set() and time.time() < end:
            time.sleep(0.002)
        if not wit.subscribed.is_set():
            inconclusive = True
        if relay2 is not None and not inconclusive:
            relay2.setup()
            if not barrier(('second', 0)):
                inconclusive = True
        for cyc in range(case['cycles']):
            if inconclusive or bad:
                break
            relay.setup()           # SUBSCRIBE is queued before anything published below
            n = rng.choice([1, 3, 20])
            for k in range(n):
                eq.publish(request_id='r', event_name=eventNames.WORK_STARTED, event_payload={'id': ['C', cyc, k]}, publisher_id='h')
                pub2.append(('C', cyc, k))
            if not barrier(('in', cyc)):
                if dt.is_alive():
                    inconclusive = True
                else:
                    bad.append(('dispatcher-thread-died', None))
                break
            want = [('C', cyc, k) for k in range(n)]
            # everything is in the relay's pipe now; its thread hands it to the callback
            end = time.time() + WAIT_S
            th = relay.relay_thread
            while time.time() < end:
                mine = [x for x in got if x[:2] == ('C', cyc)]
                if len(mine) >= n:
                    break
                if th is None or not th.is_alive():
                    time.sleep(0.05)
                    mine = [x for x in got if x[:2] == ('C', cyc)]
                    break
                time.sleep(0.002)
            mine = [x for x in got if x[:2] == ('C', cyc)]
            checked += len(mine)
            if mine != want:
                if len(mine) < n and th is not None and th.is_alive():
                    inconclusive = True     # slow machine: the relay thread is still working
                else:
                    kind = 'lost' if len(set(mine)) < n else ('duplicate' if len(mine) > len(set(mine)) else 'reordered')
                    bad.append(('relay-cycle%s-%s' % ('1' if cyc == 0 else 'N', kind), {'cycle': cyc, 'got': mine[:5], 'want': n,
                                                                          'relay_thread_alive': bool(th and th.is_alive())}))
                break
            relay.shutdown()        # UNSUBSCRIBE is queued before anything published below
            for k in range(rng.choice([0, 2])):
                eq.publish(request_id='r', event_name=eventNames.WORK_STARTED, event_payload={'id': ['X', cyc, k]}, publisher_id='h')
                pub2.append(('X', cyc, k))
            if not barrier(('out', cyc)):
                if dt.is_alive():
                    inconclusive = True
                else:
                    bad.append(('dispatcher-thread-died', None))
                break
            cycles_done += 1
        if relay2 is not None and not inconclusive and not bad:
            # the witness holds the last sentinel: the dispatcher has fanned out everything published so far.  A verdict needs
            # more than silence: either the second relay holds that sentinel too (its channel is ordered, so whatever is
            # missing before it was lost), or the dispatcher's table has no separate channel for it (witness + second relay,
            # the first relay being unsubscribed now); silence alone, on a loaded machine, is inconclusive
            last = ('S', ('out', case['cycles'] - 1))
            end = time.time() + WAIT_S
            while time.time() < end and last not in got2 and len(disp.subscribers) >= 2:
                time.sleep(0.002)
            mine2 = [x for x in got2 if x and x[0] in ('C', 'X')]
            second_checked = len(mine2)
            if last in got2:
                if mine2 != pub2:
                    kind = 'lost' if len(set(mine2)) < len(pub2) else ('duplicate' if len(mine2) > len(set(mine2)) else 'reordered')
                    bad.append(('second-relay-%s' % kind, {'got': len(mine2), 'want': len(pub2), 'first_missing': next((x for x in pub2 if x not in mine2), None)}))
            elif len(disp.subscribers) < 2:
                bad.append(('second-relay-has-no-subscription-of-its-own', {'got': len(mine2), 'want': len(pub2), 'subscriptions': len(disp.subscribers),
                                                                            'same_id': relay2.relay_sub_id == relay.relay_sub_id}))
            else:
                inconclusive = True
        stray = [x for x in got if x and x[0] in ('X',)]
        if stray:
            bad.append(('relay-delivered-event-published-while-unsubscribed', {'events': stray[:5]}))
        if len([x for x in got if x and x[0] == 'C']) != len({x for x in got if x and x[0] == 'C'}):
            bad.append(('relay-duplicate', None))
    finally:
        shutdown.set()
        try:
            if relay.relay_thread is not None:
                relay.shutdown()
        except Exception:
            pass
        try:
            if relay2 is not None and relay2.relay_thread is not None:
                relay2.shutdown()
        except Exception:
            pass
        dt.join(timeout=3)
        wit.close()
        for c in list(disp.subscribers.values()):
            try:
                c.close()
            except Exception:
                pass
        dispose_queue(mpq)
    c = {'relay_cycles': cycles_done, 'relay_deliveries_checked': checked, 'relay_resetups': max(0, cycles_done - 1),
         'second_relay_deliveries_checked': second_checked}
    if inconclusive:
        c['_inconclusive'] = 1
    return bad, c


def manager_burst(case: Dict[str, Any]) -> Tuple[List[Tuple[str, Any]], Dict[str, int]]:
    """The event bus as the product assembles it (EventManager: its own queue + dispatcher thread) under a burst: thousands of
    events, core-named and custom-named ('pre-defined or custom event name'), published as fast as two threads can while one
    subscriber reads slowly at first.  Every one of them reaches the subscriber exactly once, per publisher in order."""
    from proxy.core.event import EventManager
    rng = random.Random('c18b:%s:%s' % (case['seed'], case['i']))
    bad: List[Tuple[str, Any]] = []
    inconclusive = False
    n_each, npub = case['events'], 2
    names = [eventNames.WORK_STARTED, eventNames.WORK_FINISHED, 1000, 0, 4242]
    mgr = EventManager()
    mgr.setup()
    rd = Reader('burst', duplex=True)
    got_names: Dict[Any, int] = {}
    try:
        assert mgr.queue is not None
        eq = mgr.queue
        rd.start()
        eq.subscribe(rd.sid, rd.send)
        end = time.time() + WAIT_S
        while not rd.subscribed.is_set() and time.time() < end:
            time.sleep(0.002)
        if not rd.subscribed.is_set():
            inconclusive = True
        else:
            def publisher(p: int) -> None:
                for n in range(n_each):
                    eq.publish(request_id='r', event_name=names[(n + p) % len(names)], event_payload={'id': [p, n]}, publisher_id='p%d' % p)
            ths = [threading.Thread(target=publisher, args=(p,)) for p in range(npub)]
            for t in ths:
                t.start()
            for t in ths:
                t.join(WAIT_S * 6)
                if t.is_alive():
                    inconclusive = True
            total = n_each * npub
            last, since = -1, time.time()
            while len(rd.got) < total and not inconclusive:
                if len(rd.got) != last:
                    last, since = len(rd.got), time.time()
                elif time.time() - since > 8.0:
                    break       # nothing has arrived for 8 s although the dispatcher has nothing else to do
                if mgr.dispatcher_thread is None or not mgr.dispatcher_thread.is_alive():
                    bad.append(('dispatcher-thread-died', None))
                    break
                time.sleep(0.01)
            got = list(rd.got)
            if not bad and not inconclusive:
                if len(got) != len(set(got)):
                    bad.append(('burst-duplicate', None))
                elif len(got) < total:
                    missing = sorted({(p, n) for p in range(npub) for n in range(n_each)} - set(got))
                    by_name: Dict[str, int] = {}
                    for (p, n) in missing:
                        k = str(names[(n + p) % len(names)])
                        by_name[k] = by_name.get(k, 0) + 1
                    only_custom = set(by_name) <= {'1000', '0', '4242'}
                    bad.append(('burst-lost-custom-named-events' if only_custom else 'burst-lost', {'got': len(got), 'published': total, 'missing_by_event_name': by_name,
                                                                                                    'first_missing': missing[:3]}))
                else:
                    for p in range(npub):
                        seq = [n for (pp, n) in got if pp == p]
                        if seq != sorted(seq):
                            bad.append(('burst-publisher-order-violated', {'publisher': p}))
    finally:
        try:
            mgr.shutdown()
        except Exception:
            pass
        rd.close()
        if mgr.dispatcher is not None:
            for c in list(mgr.dispatcher.subscribers.values()):
                try:
                    c.close()
                except Exception:
                    pass
        if mgr.queue is not None:
            dispose_queue(mgr.queue.queue)
    c = {'burst_runs': 1, 'burst_events_delivered': len(rd.got)}
    if inconclusive:
        c['_inconclusive'] = 1
    return bad, c


def run_case(case: Dict[str, Any]) -> Dict[str, Any]:
    if case['kind'] == 'manager-burst':
        bad, counters = manager_burst(case)
        inconc = 'burst-harness-timeout' if counters.pop('_inconclusive', 0) else None
        return {'viol': [{'key': 'manager-burst|%s' % w, 'detail': d} for (w, d) in bad], 'nontrivial': True,
                'sig': 'burst/%s' % case['i'], 'obs': counters, 'inconclusive': inconc, 'sample': {'kind': 'manager-burst', 'case': case}}
    if case['kind'] == 'relay-cycles':
        bad, counters = relay_cycles(case)
        inconc = 'relay-wait-timeout' if counters.pop('_inconclusive', 0) else None
        return {'viol': [{'key': 'relay-cycles|%s' % w, 'detail': d} for (w, d) in bad], 'nontrivial': True,
                'sig': 'relay/%s' % case['i'], 'obs': dict(counters, relay_runs=1), 'inconclusive': inconc,
                'sample': {'kind': 'relay-cycles', 'case': case}}
    if case['kind'] == 'stress':
        bad, counters = stress(case)
        inconc = 'stress-ack-timeout' if counters.pop('_inconclusive', 0) else None
        feat = 'stress'
        return {'viol': [{'key': '%s|%s' % (feat, w), 'detail': d} for (w, d) in bad], 'nontrivial': True,
                'sig': 'stress/%s' % case['i'], 'obs': dict(counters, stress_runs=1), 'inconclusive': inconc,
                'sample': {'kind': 'stress', 'case': case}}
    viol: Dict[str, Dict[str, Any]] = {}
    obs: Dict[str, int] = {'histories': 0}
    nontriv = 0
    samples = []
    for ops in case['histories']:
        for duplex in case['pipes']:
            bad, counters = run_history(ops, case['via_queue'], duplex)
            obs['histories'] += 1
            for k, v in counters.items():
                obs[k] = obs.get(k, 0) + v
            feat = feature(ops, duplex)
            nsubs = len({o[1] for o in ops if o[0] == 'sub'})
            if (nsubs >= 2 and any(o[0] == 'pub' for o in ops)) or 'break' in feat:
                nontriv += 1
            for (w, d) in bad:
                key = '%s|%s' % (feat, w)
                viol.setdefault(key, {'key': key, 'detail': {'history': ops, 'duplex': duplex, 'diff': d}})
            if len(samples) < 2:
                samples.append({'history': ops, 'duplex': duplex})
    obs['nontrivial_histories'] = nontriv
    obs['via_queue' if case['via_queue'] else 'direct'] = obs['histories']
    return {'viol': list(viol.values()), 'nontrivial': nontriv > 0, 'sig': str(hash(str(case['histories']))),
            'obs': obs, 'sample': samples}


def canonical_histories(maxlen: int, nsubs: int = 3):
    """All histories up to maxlen; subscribers are introduced in index order; 'sub' only for an id not
    used before; 'break' only for a subscribed, unbroken id; 'unsub' for any id (known, unknown, repeated)."""
    def rec(prefix: List[List[Any]], used: int, live: Tuple[str, ...], broken: Tuple[str, ...]):
        if prefix:
            yield list(prefix)
        if len(prefix) >= maxlen:
            return
        if used < nsubs:
            sid = 's%d' % used
            yield from rec(prefix + [['sub', sid]], used + 1, live + (sid,), broken)
        for k in range(min(used + 1, nsubs)):
            sid = 's%d' % k
            yield from rec(prefix + [['unsub', sid]], used, tuple(x for x in live if x != sid), broken)
        yield from rec(prefix + [['pub']], used, live, broken)
        for sid in live:
            if sid not in broken:
                for unread in (False, True):
                    yield from rec(prefix + [['break', sid, unread]], used, live, broken + (sid,))
    yield from rec([], 0, (), ())


def cases(tier: str, seed: int):
    i = 0
    maxlen = 5 if tier == 'quick' else 6
    block: List[Any] = []
    for h in canonical_histories(maxlen):
        # a history that never subscribes anyone exercises nothing
        if not any(o[0] == 'sub' for o in h):
            continue
        block.append(h)
        if len(block) >= 60:
            i += 1
            yield {'seed': seed, 'i': i, 'kind': 'hist', 'histories': block, 'via_queue': False, 'pipes': [True, False]}
            block = []
    if block:
        i += 1
        yield {'seed': seed, 'i': i, 'kind': 'hist', 'histories': block, 'via_queue': False, 'pipes': [True, False]}
    rng = random.Random('c18:%d' % seed)
    # directed: every way an id can come back on a fresh channel, with publishes around it and a bystander
    directed = []
    for state in ('live', 'broken-unnoticed', 'broken-noticed', 'unsubscribed'):
        for brk in (False, True):
            h0: List[List[Any]] = [['sub', 's0'], ['sub', 's1'], ['pub']]
            if state == 'broken-unnoticed':
                h0 += [['break', 's0', False]]
            elif state == 'broken-noticed':
                h0 += [['break', 's0', True], ['pub']]
            elif state == 'unsubscribed':
                h0 += [['unsub', 's0']]
            h0 += [['resub', 's0', brk], ['pub'], ['pub'], ['unsub', 's0'], ['pub'], ['resub', 's0', False], ['pub']]
            directed.append(h0)
    i += 1
    yield {'seed': seed, 'i': i, 'kind': 'hist', 'histories': directed, 'via_queue': False, 'pipes': [True, False]}
    i += 1
    yield {'seed': seed, 'i': i, 'kind': 'hist', 'histories': directed, 'via_queue': True, 'pipes': [True, False]}
    for rep in range(40 if tier == 'quick' else 1500):
        hs = []
        resub = rep % 2 == 1
        for _ in range(4):
            n = rng.randint(6, 40)
            h: List[List[Any]] = []
            used, live, broken = 0, [], []
            for _ in range(n):
                r = rng.random()
                if r < 0.2 and used < 3:
                    sid = 's%d' % used
                    used += 1
                    live.append(sid)
                    h.append(['sub', sid])
                elif r < 0.27 and used and resub:
                    sid = 's%d' % rng.randrange(used)
                    brk = rng.random() < 0.5
                    if sid in broken:
                        broken.remove(sid)
                    if sid not in live:
                        live.append(sid)
                    h.append(['resub', sid, brk])
                elif r < 0.32:
                    sid = 's%d' % rng.randint(0, 3)
                    if sid in live:
                        live.remove(sid)
                    h.append(['unsub', sid])
                elif r < 0.42 and [x for x in live if x not in broken]:
                    sid = rng.choice([x for x in live if x not in broken])
                    broken.append(sid)
                    h.append(['break', sid, rng.random() < 0.5])
                else:
                    h.append(['pub'])
            hs.append(h)
        i += 1
        yield {'seed': seed, 'i': i, 'kind': 'hist', 'histories': hs, 'via_queue': True, 'pipes': [rng.random() < 0.7]}
    for k in range(4 if tier == 'quick' else 40):
        i += 1
        yield {'seed': seed, 'i': i, 'kind': 'relay-cycles', 'cycles': rng.choice([2, 3]), 'second_relay': k % 2 == 0}
    for k in range(3 if tier == 'quick' else 30):
        i += 1
        yield {'seed': seed, 'i': i, 'kind': 'manager-burst', 'events': [3000, 6000, 12000][k % 3]}
    for k in range(16 if tier == 'quick' else 400):
        i += 1
        yield {'seed': seed, 'i': i, 'kind': 'stress', 'publishers': rng.choice([1, 2, 4, 8]), 'events': rng.choice([50, 200, 400]),
               'subscribers': rng.choice([1, 2, 3]), 'mids': rng.choice([1, 2, 3]), 'breakers': rng.choice([0, 1, 2]),
               'chaos': 10, 'switch': rng.choice([1e-5, 1e-4, 5e-3])}


def floors(tier: str) -> Dict[str, int]:
    return {'histories': 3000, 'nontrivial_histories': 1000, 'breaks': 500, 'breaks_with_unread_data': 100,
            'deliveries_checked': 5000, 'via_queue': 100, 'stress_runs': 10, 'stress_deliveries_checked': 5000,
            'stress_mid_subscribers': 8, 'stress_mid_must_events': 200, 'stress_breakers': 3,
            'resubscribes': 100, 'relay_cycles': 6, 'relay_resetups': 3, 'second_relay_deliveries_checked': 10, 'burst_runs': 2, 'burst_events_delivered': 15000}


if __name__ == '__main__':
    raise SystemExit(driver.main(__import__('checks.c18', fromlist=['x'])))

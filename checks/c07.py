"""C07 — queued output is fully delivered before the proxy closes a connection.

The proxy is made the closer of a client connection after having produced output for it:
  static    - built-in static server (Connection: close after every file), files of many sizes
  error     - proxy-generated error pages (400 / 404 / 502 refused upstream / 501-less unknown scheme)
  reject    - a plugin rejecting the request with a large body (HttpRequestRejected)
  webclose  - a web route queuing many pieces and then ending the connection
  webkeep   - a keep-alive web route reply; the client half-closes while the reply is still queued
  upclose   - forward proxy: origin sends a response (close-delimited or Content-Length) and closes
  tunclose  - CONNECT tunnel: origin sends bytes and closes
under short-write / EAGAIN outcomes on the client socket, small send sizes, client read paces from eager to
a trickle through a 4 KiB window, and clients that half-close (shutdown of their sending side) right after the
request or once the reply has started.  Boundary oracle: what the client read up to end-of-stream is
exactly what was produced (the origin's bytes / a complete response whose decoded body equals the file or
the plugin's body), then EOF follows within K loop iterations after the last byte was read.
Both the single-stepped threadless executor and the thread-per-connection handler are driven.
"""
import os
import gzip
import array
import fcntl
import termios
import random
import shutil
import threading
from typing import Any, Dict, List, Optional, Tuple

from rig import env, driver, shim, monitors, h11util, gen_http as G

env.quiet_logging()

from rig.steprig import StepRig, make_flags, LoopDied      # noqa: E402
from rig.threadrig import ThreadRig                         # noqa: E402
from rig.peers import refused_port                          # noqa: E402

from proxy.http.parser import HttpParser                                    # noqa: E402
from proxy.http.proxy import HttpProxyBasePlugin                            # noqa: E402
from proxy.http.server import HttpWebServerBasePlugin, httpProtocolTypes    # noqa: E402
from proxy.http.exception import HttpRequestRejected, HttpProtocolException  # noqa: E402
from proxy.core.connection import TcpConnection                             # noqa: E402

PROPERTY = 'C07'
LEVEL = 'exploration'
LEVEL_TEXT = ('Exploration: seeded cases over (output source x output size from 1 byte to 16 MiB in one or many queued '
              'pieces x short-write/EAGAIN rates on the client socket x --max-sendbuf-size x client read pace x time of '
              'the upstream close relative to the client reads x executor: single-stepped threadless loop / '
              'thread-per-connection handler). Each execution is judged by conservation at the client socket '
              '(received == produced, complete per h11 and Content-Length) and by EOF following within K iterations.')
LEVEL_NOTE = ('Trusted: kernel sockets, h11 as response parser, gzip for undoing Content-Encoding. "Promptly" is decided '
              'in loop iterations (K = 6 threadless, 60 handler-loop iterations threaded), never in seconds.')
TECHNIQUE = 'runtime monitoring: conservation oracle on the client transcript up to EOF + iteration-counted close bound, under socket-outcome perturbation'
RULE = ('case = (source, size/pieces, shim rates, sendbuf flag, client pace, rig); non-trivial = the client buffer still held '
        'data when teardown was requested (must_flush_before_shutdown or reads_teared with buffer observed) or >= 10 flush '
        'calls were needed; distinct = case signature')
ASSUMPTIONS = ['the client keeps reading until end-of-stream', 'upstream responses are well-formed']
SHARDS = {'quick': 8, 'thorough': 16}
BUDGET_S = {'quick': 45, 'thorough': 800}
K_STEP = 6
K_THREAD = 60

_state: Dict[str, Any] = {'reject_body': b'', 'web_pieces': []}
_flush_calls = {'n': 0}
_orig_flush = TcpConnection.flush


def _counting_flush(self: Any, *a: Any, **k: Any) -> int:
    _flush_calls['n'] += 1
    return _orig_flush(self, *a, **k)


TcpConnection.flush = _counting_flush      # type: ignore[method-assign]   (secondary monitor: how often flush ran)


class Rejecter(HttpProxyBasePlugin):
    def before_upstream_connection(self, request: HttpParser) -> Optional[HttpParser]:
        if request.path and b'reject' in request.path:
            raise HttpRequestRejected(status_code=403, reason=b'Forbidden', headers={b'X-Why': b'c07'},
                                      body=_state['reject_body'])
        return request


class PiecesRoute(HttpWebServerBasePlugin):
    def routes(self) -> List[Tuple[int, str]]:
        return [(httpProtocolTypes.HTTP, r'/pieces')]

    def handle_request(self, request: HttpParser) -> None:
        for p in _state['web_pieces']:
            self.client.queue(memoryview(p))
        raise HttpProtocolException('reply queued, closing')


class KeepRoute(HttpWebServerBasePlugin):
    """A keep-alive reply (no teardown requested by the route): the connection ends when the client half-closes."""

    def routes(self) -> List[Tuple[int, str]]:
        return [(httpProtocolTypes.HTTP, r'/keep')]

    def handle_request(self, request: HttpParser) -> None:
        for p in _state['web_pieces']:
            self.client.queue(memoryview(p))


_root: Dict[str, str] = {}


def begin(tier: str) -> None:
    d = env.workdir('c07', str(os.getpid()))
    _root['dir'] = d


def end() -> None:
    if _root.get('dir'):
        shutil.rmtree(_root['dir'], ignore_errors=True)


def flags_for(kind: str, sendbuf: str, threaded: bool) -> Any:
    extra = {'default': [], '4k': ['--max-sendbuf-size', '4096'], '7': ['--max-sendbuf-size', '7'],
             '1k-recv': ['--max-sendbuf-size', '1024', '--server-recvbuf-size', '4096']}[sendbuf]
    key = 'c07:%s:%s:%s' % (kind, sendbuf, threaded)
    if kind == 'static':
        return make_flags(['--enable-static-server', '--static-server-dir', _root['dir']] + extra, cache_key=key + _root['dir'],
                          threaded=threaded)
    if kind == 'static-nogz':
        return make_flags(['--enable-static-server', '--static-server-dir', _root['dir'], '--min-compression-length', '999999999'] + extra,
                          cache_key=key + _root['dir'], threaded=threaded)
    if kind in ('webclose', 'webkeep'):
        return make_flags(['--enable-web-server'] + extra, plugins=[PiecesRoute, KeepRoute], cache_key=key.replace('webkeep', 'webclose'), threaded=threaded)
    if kind == 'reject':
        return make_flags(extra, plugins=[Rejecter], cache_key=key, threaded=threaded)
    return make_flags(extra, cache_key=key, threaded=threaded)


def run_case(case: Dict[str, Any]) -> Dict[str, Any]:
    rng = random.Random('c07:%s:%s' % (case['seed'], case['i']))
    kind, size, threaded = case['kind'], case['size'], case['rig'] == 'thread'
    shim.S.reset()
    shim.S.rng = random.Random('shim07:%s:%s' % (case['seed'], case['i']))
    fkind = kind if kind in ('static', 'static-nogz', 'webclose', 'webkeep', 'reject') else 'proxy'
    flags = flags_for(fkind, case['sendbuf'], threaded)
    viol: List[Dict[str, Any]] = []
    obs: Dict[str, int] = {}
    states = set()
    _flush_calls['n'] = 0
    feat = '%s|%s' % (kind, case['rig'])
    rig: Any = ThreadRig(flags) if threaded else StepRig(flags, case.get('mode', 'local'))
    saw_flush_state = False
    extra_iters = -1
    handler_iters = {'n': 0, 'at_done': -1}
    inconclusive = None
    try:
        origin = None
        request = b''
        produced: Optional[bytes] = None        # exact bytes expected at the client (None: judged structurally)
        expect_body: Optional[bytes] = None
        expect_code = 200
        if kind in ('static', 'static-nogz'):
            content = G.coded(b'F', size) if rng.random() < 0.7 else G.body_bytes(rng, size)
            name = 'f%d_%d.bin' % (case['i'], size)
            with open(os.path.join(_root['dir'], name), 'wb') as f:
                f.write(content)
            request = b'GET /%s HTTP/1.1\r\nHost: s.test\r\n\r\n' % name.encode()
            expect_body = content
        elif kind in ('webclose', 'webkeep'):
            body = G.coded(b'W', size)
            head = b'HTTP/1.1 200 OK\r\nContent-Length: %d\r\n%s\r\n' % (len(body), b'Connection: close\r\n' if kind == 'webclose' else b'')
            raw = head + body
            _state['web_pieces'] = G.cut_at(raw, G.random_cuts(rng, len(raw), case['pieces']))
            request = b'GET /%s HTTP/1.1\r\nHost: s.test\r\n\r\n' % (b'pieces' if kind == 'webclose' else b'keep')
            produced = raw
        elif kind == 'reject':
            _state['reject_body'] = G.coded(b'R', size)
            request = b'GET http://127.0.0.1:1/reject HTTP/1.1\r\nHost: 127.0.0.1:1\r\n\r\n'
            expect_body = _state['reject_body']
            expect_code = 403
        elif kind == 'error':
            which = case['error']
            if which == '400':
                request = b'GARBAGE\r\n\r\n'
                expect_code = 400
            elif which == '404':
                request = b'GET /nothing-here HTTP/1.1\r\nHost: s.test\r\n\r\n'
                expect_code = 400       # web server not enabled: a non-proxy request is a bad request
            elif which == '502':
                p = refused_port('127.0.0.1')
                request = b'GET http://127.0.0.1:%d/x HTTP/1.1\r\nHost: 127.0.0.1:%d\r\n\r\n' % (p, p)
                expect_code = 502
            else:
                request = b'GET ftp://127.0.0.1/x HTTP/1.1\r\nHost: 127.0.0.1\r\n\r\n'
                expect_code = 400
            if case.get('extra_input'):
                request += b'X' * case['extra_input']
        else:
            origin = rig.add_origin('127.0.%d.%d' % (rng.randint(0, 250), rng.randint(2, 250)))
            hp = origin.hostport
            if kind == 'tunclose':
                request = b'CONNECT %s HTTP/1.1\r\nHost: %s\r\n\r\n' % (hp, hp)
            else:
                request = b'GET http://%s/u HTTP/1.1\r\nHost: %s\r\n\r\n' % (hp, hp)
        if threaded:
            client, work, th = rig.add_client(case.get('transport', 'tcp'), rcvbuf=case.get('rcvbuf'))
            real_once = work._run_once

            async def counted_once() -> bool:
                handler_iters['n'] += 1
                return await real_once()
            work._run_once = counted_once       # instance level; the class is untouched
        else:
            if case.get('predecessor') and origin is None:
                # an earlier client of the same worker asked for the very same reply and vanished (RST) before the proxy could
                # write a byte of it: whatever the proxy does with that undeliverable reply must not touch anybody else's
                for _ in range(case['predecessor']):
                    pre = rig.add_client('tcp')
                    pre.send(request)
                    pre.reset_close()
                    rig.step(rng.randint(3, 8))
            client = rig.add_client(case.get('transport', 'unix'), rcvbuf=case.get('rcvbuf'), sndbuf=case.get('sndbuf'))
            work = None
        shim.S.short_write_p = case['short_p']
        shim.S.eagain_p = case['eagain_p']
        client.send(request)
        halfclose = case.get('halfclose') if origin is None else None
        if halfclose == 'at-once':
            client.shutdown_wr()        # "I have nothing more to send": the reply is still owed in full

        # ---- upstream part ----
        up_stream = b''
        if origin is not None:
            box: Dict[str, Any] = {}

            def accepted() -> bool:
                if 'oc' not in box:
                    p = origin.accept()
                    if p is not None:
                        box['oc'] = p
                return 'oc' in box
            ok = rig.wait(accepted, [client]) if threaded else rig.until(accepted, [client])
            if not ok:
                return {'viol': [], 'inconclusive': 'origin-never-connected', 'obs': {}, 'sig': 'x', 'nontrivial': False}
            oc = box['oc']
            if kind == 'tunclose':
                payload = G.coded(b'T', size) if rng.random() < 0.7 else G.body_bytes(rng, size)
                up_stream = payload
            else:
                body = G.coded(b'U', size)
                if case.get('framing') == 'cl':
                    up_stream = b'HTTP/1.1 200 OK\r\nContent-Length: %d\r\nConnection: close\r\n\r\n' % len(body) + body
                else:
                    up_stream = b'HTTP/1.0 200 OK\r\nX-Framing: close-delimited\r\n\r\n' + body
            pieces = G.cut_at(up_stream, G.random_cuts(rng, len(up_stream), case['pieces']))

        pace = case['pace']
        got_all_at: Optional[int] = None

        hc = {'done': halfclose != 'mid'}

        def client_read() -> None:
            if not hc['done'] and len(client.rx) > 0:
                client.shutdown_wr()    # half-close once the first bytes of the reply have been read
                hc['done'] = True
            if pace == 'eager':
                client.pump()
            elif pace == 'slow':
                client.pump(rng.choice([1, 512, 4096]))
            else:       # trickle
                if rng.random() < 0.3:
                    client.pump(rng.choice([1, 64, 4096]))

        def sample() -> None:
            nonlocal saw_flush_state
            if threaded:
                ws = [work]
            else:
                ws = rig.work_objs()
            for w in ws:
                st = monitors.sample_state(w)
                states.add(st)
                try:
                    if (w.must_flush_before_shutdown or w.reads_teared) and w.work.has_buffer():
                        saw_flush_state = True
                except Exception:
                    pass

        if origin is not None:
            # wait for the request (or the tunnel ack) to have crossed, then stream and close at a chosen moment
            if kind == 'tunclose':
                need = lambda: b'\r\n\r\n' in client.rx       # noqa: E731
                (rig.wait(need, [client, oc]) if threaded else rig.until(need, [client, oc]))
                ack_len = len(client.rx)
            else:
                need = lambda: b'\r\n\r\n' in oc.rx           # noqa: E731
                (rig.wait(need, [client, oc]) if threaded else rig.until(need, [client, oc]))
                ack_len = 0
            pi = 0
            rem = b''
            guard = 0
            while (rem or pi < len(pieces)) and guard < 4000000:
                guard += 1
                if not rem:
                    rem = pieces[pi]
                    pi += 1
                n = oc.send(rem)
                if n > 0:
                    rem = rem[n:]
                elif n < 0:
                    break
                if not threaded:
                    for _ in range(rng.randint(0, 2)):
                        rig.step()
                        sample()
                else:
                    sample()
                if case['close_timing'] != 'before-client-reads':
                    client_read()
            if case.get('up_end') == 'rst' and not threaded:
                # the upstream aborts (RST) instead of closing - but only once the proxy has taken every byte it sent, so that
                # whatever is missing at the client afterwards was lost inside the proxy and not in a kernel queue
                def _taken() -> bool:
                    try:
                        if _ioctl_int(oc.sock, termios.TIOCOUTQ) != 0:
                            return False
                        for w in rig.work_objs():
                            up = getattr(getattr(w, 'plugin', None), 'upstream', None)
                            if up is not None and not up.closed and _ioctl_int(up.connection, termios.FIONREAD) != 0:
                                return False
                        return True
                    except (OSError, ValueError):
                        return False
                rig.until(_taken, [oc] if case['close_timing'] == 'before-client-reads' else [client, oc], idle_timeout=0.5)
                if not rem and pi >= len(pieces) and _taken():
                    pending = any(w.work.has_buffer() for w in rig.work_objs())
                    oc.reset_close()
                    obs['upstream_rst'] = 1
                    obs['upstream_rst_with_output_pending'] = 1 if pending else 0
            oc.close()          # the upstream closes: FIN right behind its last byte
            if kind == 'tunclose':
                produced = bytes(client.rx[:ack_len]) + up_stream
                if not h11_ack_ok(bytes(client.rx[:ack_len])):
                    viol.append({'key': feat + '|tunnel-ack-malformed', 'detail': {'ack': bytes(client.rx[:ack_len])}})
            else:
                produced = up_stream

        # ---- drain: the client keeps reading until end-of-stream ----
        if threaded:
            def done() -> bool:
                if produced is not None and got_len() >= len(produced) and handler_iters['at_done'] < 0:
                    handler_iters['at_done'] = handler_iters['n']
                return client.ended and not th.is_alive()

            def got_len() -> int:
                return len(client.rx)
            t_guard = 0
            import time as _t
            deadline = _t.time() + case.get('watchdog', 40.0)
            while not done():
                client_read()
                sample()
                if produced is None and client.ended:
                    pass
                # counted bound: all output read, yet the handler keeps iterating without closing
                if handler_iters['at_done'] >= 0 and handler_iters['n'] - handler_iters['at_done'] > K_THREAD and not client.ended:
                    break
                if _t.time() > deadline:
                    inconclusive = 'thread-watchdog'
                    break
                if pace != 'eager':
                    _t.sleep(0.0002)
                t_guard += 1
            client.pump()
        else:
            it = 0
            stall = 0
            last = len(client.rx)
            while not client.ended and it < case.get('max_iter', 3000000):
                rig.step()
                it += 1
                sample()
                if got_all_at is None:
                    client_read()
                else:
                    if not hc['done']:
                        client.shutdown_wr()
                        hc['done'] = True
                    client.pump()       # everything produced has been read: now only the end-of-stream is awaited, eagerly,
                    #                     so that the count below measures the proxy's close and not the client's read pace
                if got_all_at is None and produced is not None and len(client.rx) >= len(produced):
                    got_all_at = it
                if got_all_at is None and produced is None and response_complete(bytes(client.rx)):
                    got_all_at = it
                if got_all_at is not None and it - got_all_at > K_STEP + 50:
                    break
                if len(client.rx) != last:
                    last = len(client.rx)
                    stall = 0
                else:
                    stall += 1
                    if stall > 400 and not rig.works:
                        break       # the work is gone, nothing more can come
                    if stall > 20000:
                        break
            if not client.ended:
                # late loopback delivery must not be mistaken for loss
                rig.until(lambda: client.ended, [client], idle_timeout=case.get('grace', 0.5))
            if got_all_at is not None and client.ended:
                extra_iters = max(0, it - got_all_at)
        got = bytes(client.rx)
        # ---- oracle ----
        if produced is not None:
            d = monitors.diff_streams(produced, got)
            if d is not None:
                if client.reset and d['kind'] == 'missing-tail':
                    d['kind'] = 'missing-tail-after-reset'
                viol.append({'key': '%s|%s' % (feat, d['kind']), 'detail': d})
        else:
            msgs, err, rest = h11util.parse_responses(got, [b'GET'], eof=client.eof)
            fin = [m for m in msgs if not m.get('interim')]
            if err or len(fin) != 1 or not fin[0]['complete'] or rest:
                viol.append({'key': feat + '|response-incomplete-or-malformed',
                             'detail': {'err': err, 'n': len(fin), 'complete': [m['complete'] for m in fin], 'got_len': len(got),
                                        'head': got[:160], 'reset': client.reset, 'stray': rest[:40]}})
            else:
                m = fin[0]
                body = m['body']
                hd = dict(m['headers'])
                if hd.get(b'content-encoding') == b'gzip':
                    try:
                        body = gzip.decompress(body)
                    except Exception:
                        viol.append({'key': feat + '|bad-gzip', 'detail': {'len': len(m['body'])}})
                        body = None
                if m['code'] != expect_code:
                    viol.append({'key': feat + '|unexpected-status-%d' % m['code'], 'detail': {'expected': expect_code}})
                elif expect_body is not None and body is not None and body != expect_body:
                    viol.append({'key': feat + '|body-differs', 'detail': monitors.diff_streams(expect_body, body)})
                if m['framing'] == 'close' and not client.ended:
                    viol.append({'key': feat + '|close-delimited-without-close', 'detail': {}})
        if not client.ended and not inconclusive:
            viol.append({'key': feat + '|no-end-of-stream-after-output', 'detail': {'got_len': len(got), 'rig_iterations': getattr(rig, 'iterations', None),
                                                                                    'handler_iters_after_done': handler_iters['n'] - handler_iters['at_done']}})
        elif not threaded and extra_iters > K_STEP:
            viol.append({'key': feat + '|close-not-prompt', 'detail': {'iterations_after_last_byte': extra_iters, 'K': K_STEP}})
        if client.reset and not viol:
            obs['reset_instead_of_eof_all_bytes_delivered'] = 1
    except LoopDied as e:
        viol.append({'key': '%s|loop-died:%s' % (feat, e.where()), 'detail': {'tb': e.tb[-1200:]}})
    finally:
        counts = dict(shim.S.counts)
        if threaded:
            alive = rig.close()
            if alive and not viol and not inconclusive:
                viol.append({'key': feat + '|handler-thread-never-exits', 'detail': {}})
        else:
            rig.close()
    flushes = _flush_calls['n']
    obs.update({'kind:' + kind: 1, 'rig:' + case['rig']: 1, 'aborted_predecessors': case.get('predecessor') or 0 if case['rig'] == 'step' else 0, 'client_half_close_cases': 1 if case.get('halfclose') else 0, 'flush_calls': flushes, 'flush>=10': 1 if flushes >= 10 else 0,
                'saw_flush_before_shutdown_state': 1 if saw_flush_state else 0,
                'shim:short': counts.get('send:short', 0), 'shim:eagain': counts.get('send:eagain-injected', 0) + counts.get('send:eagain-real', 0),
                'bytes_delivered': len(client.rx) if 'client' in dir() else 0,
                'max_extra_iterations_bucket>0': 1 if extra_iters > 0 else 0})
    nontrivial = saw_flush_state or flushes >= 10
    return {'viol': viol, 'nontrivial': nontrivial, 'inconclusive': inconclusive,
            'sig': '%s/%s/%d/%s/%s/%s/%s' % (kind, case['rig'], size, case['sendbuf'], case['pace'], case['short_p'], case.get('pieces')),
            'obs': obs, 'sets': {'handler_states': states},
            'sample': {'case': case, 'flush_calls': flushes, 'extra_iterations_before_eof': extra_iters, 'shim': counts}}


def _ioctl_int(sock: Any, req: int) -> int:
    buf = array.array('i', [0])
    fcntl.ioctl(sock.fileno(), req, buf)
    return buf[0]


def h11_ack_ok(ack: bytes) -> bool:
    ms, err, rest = h11util.parse_responses(ack, [b'CONNECT'], eof=False)
    return not err and len(ms) == 1 and ms[0]['code'] == 200 and not rest


def response_complete(data: bytes) -> bool:
    ms, err, rest = h11util.parse_responses(data, [b'GET'], eof=False)
    return bool(ms) and ms[-1]['complete'] and not ms[-1].get('interim') and ms[-1]['framing'] != 'close'


SIZES_Q = [1, 19, 21, 1000, 65535, 65536, 65537, 131071, 131072, 131073, 300000, 1 << 20]
SIZES_T = SIZES_Q + [(1 << 21) + 1, 5 << 20]


def cases(tier: str, seed: int):
    rng = random.Random('c07cases:%d' % seed)
    n = 700 if tier == 'quick' else 14000
    kinds = ['static', 'static-nogz', 'webclose', 'webkeep', 'reject', 'error', 'upclose', 'upclose', 'tunclose']
    for i in range(n):
        kind = kinds[i % len(kinds)]
        rigk = 'thread' if (i // len(kinds)) % 4 == 3 else 'step'
        sendbuf = rng.choice(['default', 'default', '4k', '1k-recv', '7'])
        sizes = SIZES_Q if tier == 'quick' else SIZES_T
        size = rng.choice(sizes)
        if sendbuf == '7':
            size = rng.choice([1, 19, 21, 300, 2000])
        if rigk == 'thread':
            size = min(size, 300000)
        sp, ep = rng.choice([(0, 0), (0.3, 0.1), (0.6, 0.2), (0.2, 0.6)])
        pace = rng.choice(['eager', 'slow', 'slow', 'trickle'])
        if pace == 'trickle' and size > 300000:
            pace = 'slow'
        c = {'seed': seed, 'i': i, 'kind': kind, 'rig': rigk, 'size': size, 'sendbuf': sendbuf, 'short_p': sp, 'eagain_p': ep,
             'pace': pace, 'pieces': rng.choice([0, 1, 5, 40, 300]), 'transport': rng.choice(['unix', 'tcp']) if rigk == 'step' else 'tcp',
             'rcvbuf': rng.choice([None, 4096]), 'sndbuf': rng.choice([None, 4096]),
             'close_timing': rng.choice(['before-client-reads', 'interleaved', 'interleaved']),
             'framing': rng.choice(['cl', 'close']), 'mode': rng.choice(['local', 'local', 'remote'])}
        if rigk == 'step' and kind in ('error', 'reject', 'webclose', 'static') and rng.random() < 0.4:
            c['predecessor'] = rng.choice([1, 1, 3])
        if kind in ('static', 'static-nogz', 'webclose', 'reject') and rng.random() < 0.35:
            c['halfclose'] = rng.choice(['at-once', 'mid'])
        if kind in ('upclose', 'tunclose') and rigk == 'step' and rng.random() < 0.4:
            c['up_end'] = 'rst'
        if kind == 'webkeep':
            c['halfclose'] = rng.choice(['at-once', 'mid', 'mid'])      # this connection only ends because the client half-closes
        if kind == 'error':
            c['error'] = rng.choice(['400', '404', '502', 'scheme'])
            c['extra_input'] = rng.choice([0, 0, 5, 5000])
            c['size'] = 0
        yield c
    if tier == 'thorough':
        for k in range(40):
            yield {'seed': seed, 'i': n + k, 'kind': rng.choice(['static-nogz', 'upclose', 'tunclose', 'webclose']), 'rig': 'step',
                   'size': rng.choice([8 << 20, 16 << 20]), 'sendbuf': 'default', 'short_p': 0.3, 'eagain_p': 0.1, 'pace': 'slow',
                   'pieces': 300, 'transport': 'tcp', 'rcvbuf': 4096, 'sndbuf': 4096, 'close_timing': 'interleaved',
                   'framing': 'close', 'mode': 'local', 'max_iter': 30000000}


def floors(tier: str) -> Dict[str, int]:
    fl = {'upstream_rst': 20, 'upstream_rst_with_output_pending': 8, 'client_half_close_cases': 40, 'saw_flush_before_shutdown_state': 100, 'flush>=10': 50, 'rig:thread': 100, 'rig:step': 300, 'shim:short': 200,
          'shim:eagain': 100, 'distinct:handler_states': 4}
    for k in ('static', 'static-nogz', 'webclose', 'webkeep', 'reject', 'error', 'upclose', 'tunclose'):
        fl['kind:' + k] = 30
    return fl


if __name__ == '__main__':
    raise SystemExit(driver.main(__import__('checks.c07', fromlist=['x'])))

"""C11 — TLS interception issues a valid per-host certificate and never trusts a bad upstream.

Thread rig (both handshakes inside the proxy are blocking, so the handler runs in the product's own
thread-per-connection mode while a *verifying* TLS client and TLS origins run as harness threads).  A PKI is
built per process with openssl: interception CA + signing key (given to the proxy), an origin CA (the proxy's
--ca-file trust store), and origin leaf certificates in four situations (trusted + right name, self-signed,
trusted but wrong name, expired).  Observed: the certificate the client's verifying context is presented
(CERT_REQUIRED + hostname check against the CONNECT host, trust anchor = interception CA), the plaintext the
TLS origin reads, the application bytes the client reads, the origin's view of the handshake.
"""
import os
import ssl
import time
import random
import shutil
import socket
import threading
from typing import Any, Dict, List, Optional, Tuple

from rig import env, driver, shim, resolver, monitors, h11util, conv, pki, gen_http as G

env.quiet_logging()

from rig.steprig import make_flags                          # noqa: E402
from rig.threadrig import ThreadRig                         # noqa: E402

from proxy.http.parser import HttpParser                    # noqa: E402
from proxy.http.proxy import HttpProxyBasePlugin            # noqa: E402
from proxy.core.work.threaded import start_threaded_work    # noqa: E402

PROPERTY = 'C11'
LEVEL = 'exploration'
LEVEL_TEXT = ('Exploration: seeded cases over CONNECT hosts (DNS names, punycode name, IPv4 literal, IPv6 literal) x origin '
              'certificate situation (trusted+right name, self-signed, wrong name, expired) x --insecure-tls-interception '
              'on/off x per-request opt-out plugin on/off x request/response payloads (bodies to 300 KB, chunked, several '
              'requests per TLS session, TLS records of 1..n bytes) x cold/warm certificate cache. Judged by real TLS '
              'verification at the client, h11 at the origin plaintext, and byte equality of relayed responses.')
LEVEL_NOTE = ('Trusted: OpenSSL (via the ssl module) as certificate verifier, h11, the harness PKI. The case matrix runs the '
              'thread-per-connection mode in process; live batches run the assembled product in threadless-local / remote / '
              'threaded mode with several worker processes and N clients CONNECTing to a brand-new host at the same moment '
              '(cross-process certificate generation). The missing Via field on intercepted requests is the known finding of '
              'C02 and is not judged here.')
TECHNIQUE = 'runtime monitoring with real TLS peers: certificate verification result at the client, plaintext transcript at the TLS origin, relayed-bytes equality'
RULE = ('case = (host kind, origin certificate situation, insecure flag, opt-out, payload shape, connection count); '
        'non-trivial = a TLS handshake with the proxy was attempted; distinct = the tuple above')
ASSUMPTIONS = ['origin names resolve through the harness resolver', 'openssl binary available (used by the product itself for leaf generation)']
SHARDS = {'quick': 8, 'thorough': 16}
BUDGET_S = {'quick': 50, 'thorough': 900}

_P: Dict[str, Any] = {}
OPTOUT_HOSTS: set = set()


class OptOut(HttpProxyBasePlugin):
    """Opts out of intercepting the hosts listed by the running case."""

    def do_intercept(self, request: HttpParser) -> bool:
        h = (request.host or b'').decode('latin-1').strip('[]')
        if h in OPTOUT_HOSTS:
            return False
        return super().do_intercept(request)


def begin(tier: str) -> None:
    d = env.workdir('c11', str(os.getpid()))
    certs = os.path.join(d, 'gen')
    os.makedirs(certs, exist_ok=True)
    ica = pki.make_ca(d, 'interception-ca')
    sign_key = pki.make_key(os.path.join(d, 'signing.key'), rsa=True)
    oca = pki.make_ca(d, 'origin-ca', rsa=False)
    other = pki.make_ca(d, 'unrelated-ca', rsa=False)
    _P.update({'dir': d, 'certs': certs, 'ica': ica, 'sign_key': sign_key, 'oca': oca, 'other': other, 'leafs': {}})
    # the host's own trust store (what OpenSSL's default paths resolve to) trusts the *unrelated* CA: an operator who narrows
    # trust with --ca-file still refuses origins that only the platform would accept.  OpenSSL reads these variables whenever
    # default paths are loaded, so nothing else in this process changes (harness contexts load their CA files explicitly).
    empty = os.path.join(d, 'no-cert-dir')
    os.makedirs(empty, exist_ok=True)
    os.environ['SSL_CERT_FILE'] = other[1]
    os.environ['SSL_CERT_DIR'] = empty


def end() -> None:
    if _P.get('dir'):
        shutil.rmtree(_P['dir'], ignore_errors=True)


class Bystander(HttpProxyBasePlugin):
    """A plugin that has no opinion on interception (keeps the default): loaded before or after the opting-out one."""


def flags_for(insecure: bool, plug: str = 'optout', recvbuf: Any = None) -> Any:
    args = ['--ca-key-file', _P['ica'][0], '--ca-cert-file', _P['ica'][1], '--ca-signing-key-file', _P['sign_key'],
            '--ca-cert-dir', _P['certs'], '--ca-file', _P['oca'][1]]
    if recvbuf:
        # a documented tuning knob; a TLS record (up to 16 KiB of plaintext) may be larger than one read
        args += ['--client-recvbuf-size', str(recvbuf), '--server-recvbuf-size', str(recvbuf)]
    if insecure:
        args.append('--insecure-tls-interception')
    plugins = {'optout': [OptOut], 'optout+bystander': [OptOut, Bystander], 'bystander+optout': [Bystander, OptOut]}[plug]
    return make_flags(args, plugins=plugins, cache_key='c11:%s:%s:%s:%s' % (insecure, _P['dir'], plug, recvbuf), threaded=True)


# what the origin's (perfectly valid) certificate says about its owner; the proxy copies these fields into the certificate it issues
SUBJECTS = {'plain': ('origin', False), 'slash': ('AC/DC Ltd', False), 'comma': ('Foo, Bar', False), 'unicode': ('Bücher GmbH & Söhne', True),
            'empty': (None, False), 'backslash': ('back\\slash', False), 'equals': ('a=b', False), 'quote': ('say "hi"', False)}


def origin_leaf(situation: str, host: str, also: Tuple[str, ...] = (), subject: str = 'plain') -> Tuple[str, str]:
    key = '%s|%s|%s|%s' % (situation, host, also, subject)
    if key not in _P['leafs']:
        n = 'leaf%d' % len(_P['leafs'])
        if situation == 'good':
            org, utf8 = SUBJECTS[subject]
            _P['leafs'][key] = pki.make_leaf(_P['dir'], n, [host] + list(also), _P['oca'], org=org, utf8=utf8)
        elif situation == 'self-signed':
            _P['leafs'][key] = pki.make_leaf(_P['dir'], n, [host], None)
        elif situation == 'untrusted-ca':
            _P['leafs'][key] = pki.make_leaf(_P['dir'], n, [host], _P['other'])
        elif situation == 'wrong-name':
            _P['leafs'][key] = pki.make_leaf(_P['dir'], n, ['someone-else.test'], _P['oca'])
        elif situation == 'expired':
            _P['leafs'][key] = pki.make_leaf(_P['dir'], n, [host], _P['oca'], expired=True)
        else:
            raise ValueError(situation)
    return _P['leafs'][key]


class TlsOrigin(threading.Thread):
    """A TLS server presenting the chosen certificate; records, per connection, the handshake outcome and the plaintext."""

    def __init__(self, ip: str, keycert: Tuple[str, str], responses: Dict[bytes, bytes]) -> None:
        super().__init__(daemon=True)
        self.ls = socket.socket(socket.AF_INET6 if ':' in ip else socket.AF_INET, socket.SOCK_STREAM)
        self.ls.setsockopt(socket.SOL_SOCKET, socket.SO_REUSEADDR, 1)
        shim_bind = self.ls.bind
        shim_bind((ip, 0))
        self.ls.listen(16)
        self.ls.settimeout(0.2)
        self.port = self.ls.getsockname()[1]
        self.ctx = ssl.SSLContext(ssl.PROTOCOL_TLS_SERVER)
        self.ctx.load_cert_chain(certfile=keycert[1], keyfile=keycert[0])
        self.responses = responses
        self.conns: List[Dict[str, Any]] = []
        self.stop = threading.Event()
        self.lock = threading.Lock()

    def run(self) -> None:
        while not self.stop.is_set():
            try:
                c, _ = self.ls.accept()
            except socket.timeout:
                continue
            except OSError:
                break
            rec: Dict[str, Any] = {'handshake': None, 'plain': b'', 'done': False}
            with self.lock:
                self.conns.append(rec)
            threading.Thread(target=self._serve, args=(c, rec), daemon=True).start()

    def _serve(self, c: socket.socket, rec: Dict[str, Any]) -> None:
        c.settimeout(15)
        try:
            try:
                t = self.ctx.wrap_socket(c, server_side=True)
                rec['handshake'] = 'ok'
            except (ssl.SSLError, OSError) as e:
                rec['handshake'] = 'failed:%s' % (getattr(e, 'reason', None) or type(e).__name__)
                return
            used = 0
            while not self.stop.is_set():
                try:
                    d = t.recv(65536)
                except socket.timeout:
                    break
                except (ssl.SSLError, OSError):
                    break
                if not d:
                    break
                rec['plain'] += d
                try:
                    reqs, n = conv.split_requests(rec['plain'][used:])
                except conv.BadStream:
                    break
                used += n
                for r in reqs:
                    resp = self.responses.get(r['target'].split(b'?')[0], b'HTTP/1.1 404 Not Found\r\nContent-Length: 0\r\n\r\n')
                    try:
                        t.sendall(resp)
                    except (ssl.SSLError, OSError):
                        return
            try:
                t.close()
            except Exception:
                pass
        finally:
            rec['done'] = True
            try:
                c.close()
            except Exception:
                pass

    def close(self) -> None:
        self.stop.set()
        try:
            self.ls.close()
        except OSError:
            pass


class BioTls:
    """A TLS client over ssl.MemoryBIO, so that the harness decides how the TLS records travel: every outgoing flight is cut
    in the middle of a record (inside the 5-byte record header, right after it, or before the last byte) and the parts are
    sent as separate TCP segments with a pause in between, so the proxy's loop wakes up holding an incomplete record."""

    def __init__(self, sock: socket.socket, ctx: ssl.SSLContext, host: str, rng: random.Random, split: bool = True) -> None:
        self.sock = sock
        self.inc, self.out = ssl.MemoryBIO(), ssl.MemoryBIO()
        self.obj = ctx.wrap_bio(self.inc, self.out, server_hostname=host)
        self.rng = rng
        self.split = split
        self.splits = 0
        self.timeout = 20.0
        sock.setsockopt(socket.IPPROTO_TCP, socket.TCP_NODELAY, 1)
        self._handshake()

    def settimeout(self, t: float) -> None:
        self.timeout = t

    def _flush(self, split: bool) -> None:
        data = self.out.read()
        if not data:
            return
        self.sock.settimeout(self.timeout)
        if split and len(data) > 6:
            cut = self.rng.choice([self.rng.randint(1, 4), 5, len(data) - 1, self.rng.randint(1, len(data) - 1)])
            self.sock.sendall(data[:cut])
            time.sleep(0.03)        # the proxy reads what is there: an incomplete TLS record
            self.sock.sendall(data[cut:])
            self.splits += 1
        else:
            self.sock.sendall(data)

    def _fill(self) -> bool:
        self.sock.settimeout(self.timeout)
        d = self.sock.recv(65536)
        if not d:
            self.inc.write_eof()
            return False
        self.inc.write(d)
        return True

    def _handshake(self) -> None:
        while True:
            try:
                self.obj.do_handshake()
                self._flush(False)
                return
            except ssl.SSLWantReadError:
                self._flush(False)
                if not self._fill():
                    raise ssl.SSLError('EOF during handshake')

    def sendall(self, data: bytes) -> None:
        self.obj.write(data)
        self._flush(self.split)

    def recv(self, n: int) -> bytes:
        while True:
            try:
                return self.obj.read(n)
            except ssl.SSLWantReadError:
                if not self._fill():
                    return b''
            except ssl.SSLZeroReturnError:
                return b''

    def getpeercert(self, binary: bool = False) -> Any:
        return self.obj.getpeercert(binary)

    def close(self) -> None:
        try:
            self.obj.unwrap()
            self._flush(False)
        except Exception:
            pass
        try:
            self.sock.close()
        except Exception:
            pass


def connect_through_proxy(flags: Any, host: str, port: int) -> Tuple[socket.socket, Any, threading.Thread, bytes]:
    """A client connection handled by the product's thread-per-connection path; sends CONNECT, returns after the reply head."""
    ls = socket.socket(socket.AF_INET, socket.SOCK_STREAM)
    ls.bind(('127.0.0.1', 0))
    ls.listen(1)
    a = socket.socket(socket.AF_INET, socket.SOCK_STREAM)
    shim._orig_connect(a, ls.getsockname())
    b, addr = ls.accept()
    ls.close()
    work, th = start_threaded_work(flags, b, addr)
    a.settimeout(20)
    target = ('[%s]' % host if ':' in host else host).encode() + b':%d' % port
    a.sendall(b'CONNECT %s HTTP/1.1\r\nHost: %s\r\n\r\n' % (target, target))
    head = b''
    while b'\r\n\r\n' not in head:
        d = a.recv(4096)
        if not d:
            break
        head += d
    return a, work, th, head


def tls_get_via(proxy_addr: Tuple[str, int], host: str, port: int, path: bytes, rid: bytes) -> Dict[str, Any]:
    """One verifying client against a live proxy: CONNECT, TLS with CERT_REQUIRED + hostname check (trust = interception CA),
    one GET.  Returns what happened."""
    out: Dict[str, Any] = {'connect': b'', 'handshake': None, 'response': b''}
    a = socket.socket(socket.AF_INET, socket.SOCK_STREAM)
    a.settimeout(30)
    try:
        shim._orig_connect(a, proxy_addr)
        target = host.encode() + b':%d' % port
        a.sendall(b'CONNECT %s HTTP/1.1\r\nHost: %s\r\n\r\n' % (target, target))
        head = b''
        while b'\r\n\r\n' not in head:
            d = a.recv(4096)
            if not d:
                break
            head += d
        out['connect'] = head
        if not head.startswith(b'HTTP/1.1 200'):
            return out
        cctx = ssl.SSLContext(ssl.PROTOCOL_TLS_CLIENT)
        cctx.check_hostname = True
        cctx.verify_mode = ssl.CERT_REQUIRED
        cctx.load_verify_locations(_P['ica'][1])
        try:
            t = cctx.wrap_socket(a, server_hostname=host)
            out['handshake'] = 'ok'
        except (ssl.SSLError, OSError) as e:
            out['handshake'] = 'failed:%s:%s' % (type(e).__name__, getattr(e, 'verify_message', '') or getattr(e, 'reason', '') or str(e)[:60])
            return out
        t.sendall(b'GET %s HTTP/1.1\r\nHost: %s\r\nX-Req-Id: %s\r\n\r\n' % (path, host.encode(), rid))
        rx = b''
        t.settimeout(30)
        try:
            while True:
                ms, err, _ = h11util.parse_responses(rx, [b'GET'], eof=False)
                if err or any(m['complete'] for m in ms):
                    break
                d = t.recv(65536)
                if not d:
                    break
                rx += d
        except (ssl.SSLError, OSError):
            pass
        out['response'] = rx
        try:
            t.close()
        except Exception:
            pass
    except (OSError, socket.timeout) as e:
        out['error'] = repr(e)
    finally:
        try:
            a.close()
        except Exception:
            pass
    return out


def run_live(case: Dict[str, Any]) -> Dict[str, Any]:
    """The assembled product (threadless local / remote, several acceptors and workers) doing interception: for each of a
    few brand-new hosts, N clients CONNECT at the same moment, so that several worker *processes* meet in the
    certificate cache for the same host.  Every client must be presented a certificate it can verify and get its response."""
    from rig import liverig
    rng = random.Random('c11live:%s:%s' % (case['seed'], case['i']))
    viol: List[Dict[str, Any]] = []
    obs: Dict[str, int] = {}
    inconclusive = None
    mode = case['mode']
    run_dir = env.workdir('c11', 'live-%d-%d' % (os.getpid(), case['i']))
    certs = os.path.join(run_dir, 'gen')
    os.makedirs(certs, exist_ok=True)
    body = G.coded(b'L', 2000)
    responses = {b'/cl': b'HTTP/1.1 200 OK\r\nContent-Length: %d\r\n\r\n' % len(body) + body}
    hosts = ['livehost-%d-%d.test' % (case['i'], k) for k in range(case['hosts'])]
    origins: List[TlsOrigin] = []
    live = None
    try:
        mapping = {}
        for h in hosts:
            ip = '127.%d.%d.%d' % (rng.randint(1, 250), rng.randint(0, 250), rng.randint(2, 250))
            o = TlsOrigin(ip, origin_leaf('good', h), responses)
            o.start()
            origins.append(o)
            mapping[h] = ip
        args = ['--ca-key-file', _P['ica'][0], '--ca-cert-file', _P['ica'][1], '--ca-signing-key-file', _P['sign_key'], '--ca-cert-dir', certs,
                '--ca-file', _P['oca'][1], '--hostname', '127.0.0.1', '--port', '0', '--num-acceptors', str(case['acceptors']),
                '--num-workers', str(case['workers']), '--log-level', 'CRITICAL']
        args += {'threaded': ['--threaded'], 'local': ['--threadless', '--local-executor', '1'], 'remote': ['--threadless', '--local-executor', '0']}[mode]
        live = liverig.Live(args, run_dir, resolver=mapping)
        paddr = ('127.0.0.1', live.ready['port'])
        for h, o in zip(hosts, origins):
            results: List[Dict[str, Any]] = []
            lock = threading.Lock()
            barrier = threading.Barrier(case['clients'])

            def one(k: int) -> None:
                try:
                    barrier.wait(10)
                except threading.BrokenBarrierError:
                    pass
                r = tls_get_via(paddr, h, o.port, b'/cl', b'live%d' % k)
                with lock:
                    results.append(r)
            ths = [threading.Thread(target=one, args=(k,)) for k in range(case['clients'])]
            for t in ths:
                t.start()
            for t in ths:
                t.join(120)
            for r in results:
                if 'error' in r:
                    inconclusive = 'harness-socket: %s' % r['error'][:80]
                    continue
                detail = {'mode': mode, 'acceptors': case['acceptors'], 'workers': case['workers'], 'concurrent_clients': case['clients'],
                          'host': h, 'connect': r['connect'][:60], 'handshake': r['handshake']}
                if not r['connect'].startswith(b'HTTP/1.1 200') or r['handshake'] != 'ok':
                    viol.append({'key': 'live-%s|concurrent-first-connects|client-cannot-verify-presented-certificate' % mode, 'detail': detail})
                elif r['response'] != responses[b'/cl']:
                    viol.append({'key': 'live-%s|concurrent-first-connects|response-not-relayed-intact' % mode,
                                 'detail': dict(detail, diff=monitors.diff_streams(responses[b'/cl'], r['response']))})
                else:
                    obs['live_verified_handshakes'] = obs.get('live_verified_handshakes', 0) + 1
            obs['live_hosts'] = obs.get('live_hosts', 0) + 1
        down = live.shutdown()
        if down.get('tag') == 'DOWN':
            live.exit()
    except liverig.LiveFailed as e:
        inconclusive = 'driver-failed: %s' % str(e)[:200]
    finally:
        if live is not None:
            live.kill()
        for o in origins:
            o.close()
        shutil.rmtree(run_dir, ignore_errors=True)
    obs['live_batches'] = 1
    seen = set()
    uniq = []
    for v in viol:
        if v['key'] not in seen:
            seen.add(v['key'])
            uniq.append(v)
    return {'viol': uniq, 'nontrivial': True, 'inconclusive': inconclusive, 'sig': 'live/%s/%d/%d/%d' % (mode, case['acceptors'], case['workers'], case['clients']),
            'obs': obs, 'sample': {'case': case}}


def _verified_get(flags: Any, host: str, port: int, timeout: float = 20.0) -> str:
    """CONNECT + verifying handshake + one GET through the thread-per-connection path: 'ok' | 'no-connect-reply' | other."""
    a = None
    try:
        a, work, th, head = connect_through_proxy(flags, host, port)
        if not head.startswith(b'HTTP/1.1 200'):
            return 'connect-refused'
        cctx = ssl.SSLContext(ssl.PROTOCOL_TLS_CLIENT)
        cctx.load_verify_locations(_P['ica'][1])
        a.settimeout(timeout)
        t = cctx.wrap_socket(a, server_hostname=host)
        t.sendall(b'GET /cl HTTP/1.1\r\nHost: %s\r\n\r\n' % host.encode())
        rx = b''
        while b'\r\n\r\n' not in rx:
            d = t.recv(4096)
            if not d:
                break
            rx += d
        t.close()
        return 'ok' if rx.startswith(b'HTTP/1.1 200') else 'no-response'
    except socket.timeout:
        return 'no-connect-reply'
    except (ssl.SSLError, OSError) as e:
        return 'failed:%s' % type(e).__name__
    finally:
        if a is not None:
            try:
                a.close()
            except Exception:
                pass


def run_gen_failure(case: Dict[str, Any]) -> Dict[str, Any]:
    """Cold cache, and certificate generation fails once (the external openssl run exits non-zero: full disk, time-out, ...).
    That connection is lost; the next CONNECT to a host never seen before still gets its certificate."""
    rng = random.Random('c11g:%s:%s' % (case['seed'], case['i']))
    viol: List[Dict[str, Any]] = []
    obs: Dict[str, int] = {}
    inconclusive = None
    shim.install()
    shim.S.reset()
    shim.S.all_threads_active = True
    wrapper = os.path.join(_P['dir'], 'openssl-wrapper.sh')
    if not os.path.exists(wrapper):
        with open(wrapper, 'w') as f:
            f.write('#!/bin/sh\n# stand-in for the external tool failing once\nif [ -f "$0.fail" ]; then rm -f "$0.fail"; exit 1; fi\nexec openssl "$@"\n')
        os.chmod(wrapper, 0o755)
    ip = '127.%d.%d.%d' % (rng.randint(1, 250), rng.randint(0, 250), rng.randint(2, 250))
    hosts = ['genf-%d-%d-%s.test' % (case['i'], rng.randint(0, 10 ** 6), k) for k in 'wab']
    resolver.reset({h: ip for h in hosts})
    OPTOUT_HOSTS.clear()
    origin = None
    try:
        body = b'ok'
        origin = TlsOrigin(ip, pki.make_leaf(_P['dir'], 'genf%d' % case['i'], hosts, _P['oca']),
                           {b'/cl': b'HTTP/1.1 200 OK\r\nContent-Length: 2\r\n\r\nok'})
        origin.start()
        args = ['--ca-key-file', _P['ica'][0], '--ca-cert-file', _P['ica'][1], '--ca-signing-key-file', _P['sign_key'],
                '--ca-cert-dir', _P['certs'], '--ca-file', _P['oca'][1], '--openssl', wrapper]
        flags = make_flags(args, plugins=[OptOut], cache_key='c11g:%s' % _P['dir'], threaded=True)
        w, a_, b_ = hosts
        r1 = _verified_get(flags, w, origin.port)
        if r1 != 'ok':
            inconclusive = 'warm-up-failed:%s' % r1
        else:
            open(wrapper + '.fail', 'w').close()
            r2 = _verified_get(flags, a_, origin.port, timeout=8.0)      # generation fails for this one: whatever happens to it
            armed_consumed = not os.path.exists(wrapper + '.fail')
            r3 = _verified_get(flags, b_, origin.port)
            obs['generation_failures_injected'] = 1 if armed_consumed else 0
            if not armed_consumed:
                inconclusive = 'failure-not-consumed'
                os.unlink(wrapper + '.fail')
            elif r3 == 'ok':
                obs['cold_connect_after_failed_generation_ok'] = 1
            else:
                r4 = _verified_get(flags, w, origin.port)      # the warm host: is the proxy (and the machine) responsive at all?
                if r4 == 'ok' or r3 not in ('no-connect-reply',):
                    viol.append({'key': 'generation-failure|cold-cache-connect-not-served-afterwards:%s' % r3,
                                 'detail': {'failed_connection': r2, 'next_cold_connect': r3, 'warm_host_meanwhile': r4}})
                else:
                    inconclusive = 'nothing-answers:%s/%s' % (r3, r4)
    except (socket.timeout, TimeoutError, OSError) as e:
        inconclusive = 'harness: %r' % e
    finally:
        if origin is not None:
            origin.close()
        shim.S.all_threads_active = False
        try:
            os.unlink(wrapper + '.fail')
        except OSError:
            pass
    obs['gen_failure_cases'] = 1
    return {'viol': viol, 'nontrivial': True, 'inconclusive': inconclusive, 'sig': 'genfail/%d' % case['i'], 'obs': obs, 'sample': {'case': case}}


def run_case(case: Dict[str, Any]) -> Dict[str, Any]:
    if case.get('kind') == 'live':
        return run_live(case)
    if case.get('kind') == 'gen-failure':
        return run_gen_failure(case)
    rng = random.Random('c11:%s:%s' % (case['seed'], case['i']))
    situation, insecure, optout, hostkind = case['situation'], case['insecure'], case['optout'], case['host']
    viol: List[Dict[str, Any]] = []
    obs: Dict[str, int] = {}
    inconclusive = None
    feat = '%s|%s%s|%s|%s' % (hostkind, situation, ('+subject-' + case['subject']) if situation == 'good' and case.get('subject', 'plain') != 'plain' else '',
                             'insecure' if insecure else 'verify', 'optout' if optout else 'intercept')
    shim.install()
    shim.S.reset()
    shim.S.all_threads_active = True
    ip = '127.%d.%d.%d' % (rng.randint(1, 250), rng.randint(0, 250), rng.randint(2, 250))
    if hostkind == 'name':
        host = 'origin-%d-%d.test' % (case['i'], rng.randint(0, 10 ** 6)) if not case.get('warm_name') else 'warm-origin.test'
    elif hostkind == 'punycode':
        host = 'xn--bcher-kva-%d.test' % case['i']
    elif hostkind == 'ipv4':
        host = ip
    else:
        host = '::1'
        ip = '::1'
    # a second name served by the same origin with the same (multi-name) certificate: virtual hosting
    alt = 'sibling-%d-%d.test' % (case['i'], rng.randint(0, 10 ** 6)) if case.get('shared_cert') and hostkind == 'name' and situation == 'good' else None
    resolver.reset(dict({host: ip}, **({alt: ip} if alt else {})) if hostkind in ('name', 'punycode') else {})
    OPTOUT_HOSTS.clear()
    if optout:
        OPTOUT_HOSTS.add(host)
    origin = None
    threads: List[threading.Thread] = []
    socks: List[socket.socket] = []
    try:
        body = G.coded(b'R', case['resp_size'])
        responses = {b'/cl': b'HTTP/1.1 200 OK\r\nContent-Length: %d\r\nX-From: tls-origin\r\n\r\n' % len(body) + body,
                     b'/chunked': b'HTTP/1.1 200 OK\r\nTransfer-Encoding: chunked\r\n\r\n' + conv.refcodec.enchunk(body, [len(body)] if body else [])}
        if hostkind == 'ipv6':
            lock_ctx: Any = env.exclusive('v6-loopback-c11', 90)
        else:
            import contextlib
            lock_ctx = contextlib.nullcontext(True)
        with lock_ctx as got_lock:
            if not got_lock:
                return {'viol': [], 'inconclusive': 'v6-lock-timeout', 'obs': {}, 'sig': feat, 'nontrivial': False}
            subject = case.get('subject', 'plain') if situation == 'good' else 'plain'
            origin = TlsOrigin(ip, origin_leaf(situation, host, (alt,) if alt else (), subject), responses)
            origin.start()
            flags = flags_for(insecure, case.get('plugins', 'optout'), case.get('recvbuf'))
            first_host = host
            for conn_no in range(case['connections'] + (1 if alt else 0)):
                host = alt if (alt and conn_no == case['connections']) else first_host
                if optout:
                    OPTOUT_HOSTS.add(host)
                a, work, th, head = connect_through_proxy(flags, host, origin.port)
                threads.append(th)
                socks.append(a)
                detail: Dict[str, Any] = {'host': host, 'situation': situation, 'insecure': insecure, 'optout': optout, 'connection': conn_no,
                                          'connect_reply': head[:80]}

                def bad(kind: str, **d: Any) -> None:
                    dd = dict(detail)
                    dd.update(d)
                    dd['origin_handshakes'] = [c['handshake'] for c in origin.conns]
                    viol.append({'key': '%s|%s' % (feat, kind), 'detail': dd})
                should_relay = situation == 'good' or insecure or optout
                if not head.startswith(b'HTTP/1.1 200'):
                    if should_relay:
                        bad('connect-not-acknowledged')
                    else:
                        # refused before anything was acknowledged: nothing may have reached the origin as application data
                        time.sleep(0.05)
                        plain = b''.join(c['plain'] for c in origin.conns)
                        if plain:
                            bad('client-data-relayed-to-unverified-origin', origin_plaintext=plain[:120])
                        elif head and not head.startswith(b'HTTP/1.'):
                            bad('origin-data-relayed-from-unverified-origin', client_got=head[:120])
                        else:
                            obs['refusals_checked'] = obs.get('refusals_checked', 0) + 1
                            if conn_no > 0:
                                obs['repeat_refusals_checked'] = obs.get('repeat_refusals_checked', 0) + 1
                    obs['connect_refused'] = obs.get('connect_refused', 0) + 1
                    a.close()
                    continue
                # ---- the client's verifying TLS context ----
                cctx = ssl.SSLContext(ssl.PROTOCOL_TLS_CLIENT)
                cctx.check_hostname = True
                cctx.verify_mode = ssl.CERT_REQUIRED
                if optout:
                    # an opaque tunnel ends at the origin itself: the origin's own chain is what a client would verify
                    cctx.load_verify_locations(_P['oca'][1])
                    if situation != 'good':
                        cctx.check_hostname = False
                        cctx.verify_mode = ssl.CERT_NONE
                else:
                    cctx.load_verify_locations(_P['ica'][1])
                if not should_relay:
                    # bad upstream, verification on.  The property protects every client, in particular one that does not
                    # verify what it is presented (it would happily talk through an opaque tunnel to the bad origin).
                    cctx.check_hostname = False
                    cctx.verify_mode = ssl.CERT_NONE
                tls: Any = None
                hs_err = None
                try:
                    if case.get('record_split'):
                        tls = BioTls(a, cctx, host, rng)
                    else:
                        tls = cctx.wrap_socket(a, server_hostname=host)
                except (ssl.SSLError, OSError) as e:
                    hs_err = '%s:%s' % (type(e).__name__, getattr(e, 'verify_message', '') or getattr(e, 'reason', '') or str(e)[:80])
                obs['client_handshakes_attempted'] = obs.get('client_handshakes_attempted', 0) + 1
                if not should_relay:
                    # bad upstream, verification on: nothing may be relayed in either direction
                    got = b''
                    if tls is not None:
                        try:
                            tls.sendall(b'GET /cl HTTP/1.1\r\nHost: %s\r\nX-Secret: client-data\r\n\r\n' % host.encode())
                            tls.settimeout(3)
                            got = tls.recv(4096)
                        except (ssl.SSLError, OSError):
                            pass
                    time.sleep(0.05)
                    plain = b''.join(c['plain'] for c in origin.conns)
                    if plain:
                        bad('client-data-relayed-to-unverified-origin', origin_plaintext=plain[:120])
                    if got:
                        bad('origin-data-relayed-from-unverified-origin', client_got=got[:120])
                    if not plain and not got:
                        obs['refusals_checked'] = obs.get('refusals_checked', 0) + 1
                        if conn_no > 0:
                            obs['repeat_refusals_checked'] = obs.get('repeat_refusals_checked', 0) + 1
                    if tls is not None:
                        tls.close()
                    else:
                        a.close()
                    continue
                if tls is None:
                    bad('client-cannot-verify-presented-certificate', error=hs_err)
                    a.close()
                    continue
                der = tls.getpeercert(True) or b''
                info = pki.cert_info(der)
                detail['presented_sans'] = info['sans']
                if optout:
                    want = ssl.PEM_cert_to_DER_cert(open(origin_leaf(situation, first_host, (alt,) if alt else (), subject)[1]).read())
                    if der != want:
                        bad('opted-out-connection-not-presented-the-origins-own-certificate')
                    else:
                        obs['optout_tunnels_checked'] = obs.get('optout_tunnels_checked', 0) + 1
                else:
                    obs['verified_handshakes'] = obs.get('verified_handshakes', 0) + 1
                    obs['verified:' + hostkind] = obs.get('verified:' + hostkind, 0) + 1
                # ---- requests inside the TLS session ----
                tls.settimeout(20)
                nreq = case['requests']
                sent_reqs = []
                rx = b''
                expect = b''
                for k in range(nreq):
                    path = rng.choice([b'/cl', b'/chunked'])
                    rb = G.coded(b'q', case['req_body']) if case['req_body'] and k % 2 == 0 else b''
                    hdr = [b'Host: %s' % host.encode(), b'X-Req-Id: t%d' % k, b'Proxy-Authorization: Basic Zm9vOmJhcg==', b'Accept: */*']
                    if rb:
                        hdr.append(b'Content-Length: %d' % len(rb))
                    raw = b'%s %s?k=%d HTTP/1.1\r\n' % (b'POST' if rb else b'GET', path, k) + b'\r\n'.join(hdr) + b'\r\n\r\n' + rb
                    sent_reqs.append({'method': b'POST' if rb else b'GET', 'target': path + b'?k=%d' % k, 'body': rb, 'rid': b't%d' % k})
                    for pc in conv.cut_bytes(rng, raw, case['cuts']):
                        tls.sendall(pc)
                    expect += responses[path]
                    end = time.time() + 20
                    while len(rx) < len(expect) and time.time() < end:
                        try:
                            d = tls.recv(65536 if case['client_pace'] == 'eager' else 1024)
                        except socket.timeout:
                            break
                        except (ssl.SSLError, OSError):
                            break
                        if not d:
                            break
                        rx += d
                        if case['client_pace'] == 'slow':
                            time.sleep(0.0002)
                diff = monitors.diff_streams(expect, rx)
                if diff is not None:
                    bad('response-not-relayed-intact', diff=diff)
                else:
                    obs['responses_checked'] = obs.get('responses_checked', 0) + nreq
                # origin-side plaintext: the requests, semantically (C02 rules; Via not judged here)
                time.sleep(0.02)
                plain = b''.join(c['plain'] for c in origin.conns if c['handshake'] == 'ok')
                if optout:
                    pass        # opaque: the origin decrypts the client's own TLS - checked above by certificate identity
                try:
                    oreqs, _ = conv.split_requests(plain)
                except conv.BadStream as e:
                    oreqs = []
                    bad('origin-plaintext-unparseable', err=str(e), head=plain[:120])
                mine = [r for r in oreqs if any(r['hd'].get(b'x-req-id') == s['rid'] for s in sent_reqs)][-nreq:]
                if len(mine) != nreq and not any('unparseable' in v['key'] for v in viol):
                    bad('requests-missing-at-origin', got=len(mine), want=nreq)
                for s_, r in zip(sent_reqs, mine):
                    if r['method'] != s_['method'] or r['target'] != s_['target'] or r['body'] != s_['body']:
                        bad('request-changed-inside-tls-session', got=(r['method'], r['target'], len(r['body'])), want=(s_['method'], s_['target'], len(s_['body'])))
                    if not optout and b'proxy-authorization' in r['hd']:
                        bad('proxy-credentials-forwarded-inside-tls-session')
                    if r['hd'].get(b'host') != host.encode():
                        bad('host-header-changed', got=r['hd'].get(b'host'))
                    obs['origin_requests_checked'] = obs.get('origin_requests_checked', 0) + 1
                if isinstance(tls, BioTls) and diff is None:
                    obs['split_tls_records_sent'] = obs.get('split_tls_records_sent', 0) + tls.splits
                try:
                    tls.close()
                except Exception:
                    pass
                if conn_no > 0:
                    obs['warm_cache_connections'] = obs.get('warm_cache_connections', 0) + 1
                if alt and host == alt and not viol:
                    obs['shared_certificate_second_host_checked'] = obs.get('shared_certificate_second_host_checked', 0) + 1
    except (socket.timeout, TimeoutError):
        inconclusive = 'harness-socket-timeout'
    except OSError as e:
        inconclusive = 'harness: %r' % e
    finally:
        for s in socks:
            try:
                s.close()
            except Exception:
                pass
        if origin is not None:
            origin.close()
        for th in threads:
            th.join(10)
        shim.S.all_threads_active = False
    if situation == 'good' and not optout and not viol:
        obs['subject:' + case.get('subject', 'plain')] = 1
    obs['recvbuf:%s' % case.get('recvbuf')] = 1
    obs.update({'plugins:' + case.get('plugins', 'optout'): 1, 'situation:' + situation: 1, 'host:' + hostkind: 1, 'insecure:%s' % insecure: 1, 'optout:%s' % optout: 1})
    seen = set()
    uniq = []
    for v in viol:
        if v['key'] not in seen:
            seen.add(v['key'])
            uniq.append(v)
    return {'viol': uniq, 'nontrivial': obs.get('client_handshakes_attempted', 0) > 0, 'inconclusive': inconclusive,
            'sig': '%s/%d/%d/%d/%s' % (feat, case['requests'], case['resp_size'], case['connections'], case['cuts']), 'obs': obs,
            'sample': {'case': case}}


SITUATIONS = ['good', 'self-signed', 'untrusted-ca', 'wrong-name', 'expired']
HOSTS = ['name', 'name', 'punycode', 'ipv4', 'ipv6']


def cases(tier: str, seed: int):
    rng = random.Random('c11cases:%d' % seed)
    i = 0
    reps = 3 if tier == 'quick' else 30
    for (mode, a, wk, cl) in ([('local', 2, 1, 6), ('remote', 2, 2, 8), ('threaded', 1, 1, 4)] if tier == 'quick' else
                              [(m, a, wk, cl) for m in ('local', 'remote', 'threaded') for (a, wk) in ((1, 1), (2, 2), (4, 4)) for cl in (4, 12)]):
        i += 1
        yield {'seed': seed, 'i': i, 'kind': 'live', 'mode': mode, 'acceptors': a, 'workers': wk, 'clients': cl, 'hosts': 3 if tier == 'quick' else 6}
    for k in range(4 if tier == 'quick' else 40):
        i += 1
        yield {'seed': seed, 'i': i, 'kind': 'gen-failure'}
    for rep in range(reps):
        for hostkind in ['name', 'punycode', 'ipv4', 'ipv6']:
            for situation in SITUATIONS:
                for insecure in (False, True):
                    for optout in (False, True):
                        if optout and insecure and rep == 0 and tier == 'quick' and situation not in ('good', 'self-signed'):
                            continue
                        i += 1
                        yield {'seed': seed, 'i': i, 'host': hostkind, 'situation': situation, 'insecure': insecure, 'optout': optout,
                               'requests': rng.choice([1, 2, 3]), 'resp_size': rng.choice([0, 50, 3000, 300000]) if situation == 'good' or insecure else 50,
                               'req_body': rng.choice([0, 20, 5000, 9000, 16000, 40000]), 'cuts': rng.choice([0, 1, 5]), 'client_pace': rng.choice(['eager', 'slow']),
                               'connections': rng.choice([1, 2, 2]) if situation == 'good' else rng.choice([2, 3]),
                               'record_split': rng.random() < 0.4, 'recvbuf': rng.choice([None, None, 1024, 8192, 16384]), 'subject': sorted(SUBJECTS)[i % len(SUBJECTS)] if rep % 2 == 1 or tier != 'quick' else 'plain', 'plugins': ['optout', 'optout+bystander', 'bystander+optout'][i % 3], 'warm_name': hostkind == 'name' and situation == 'good' and rng.random() < 0.3,
                               'shared_cert': hostkind == 'name' and situation == 'good'}




def floors(tier: str) -> Dict[str, int]:
    return {'live_batches': 3, 'live_verified_handshakes': 30, 'verified_handshakes': 60, 'refusals_checked': 45, 'optout_tunnels_checked': 30, 'responses_checked': 120,
            'origin_requests_checked': 40, 'warm_cache_connections': 10, 'verified:name': 3, 'verified:punycode': 3,
            'shared_certificate_second_host_checked': 2, 'situation:self-signed': 5, 'situation:wrong-name': 5, 'situation:expired': 5, 'situation:untrusted-ca': 5,
            'repeat_refusals_checked': 20, 'split_tls_records_sent': 20, 'plugins:optout+bystander': 30, 'plugins:bystander+optout': 30,
            'cold_connect_after_failed_generation_ok': 3}


if __name__ == '__main__':
    raise SystemExit(driver.main(__import__('checks.c11', fromlist=['x'])))

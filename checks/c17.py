"""C17 — threaded, local-threadless and remote-threadless modes behave identically.

The same scenario corpus (forward proxy, tunnel, web server, static files, reverse proxy, rejected and failing
requests, persistent and pipelined connections, 1 MiB transfers) is run against: the single-stepped local
executor (reference), the single-stepped remote executor, the thread-per-connection handler, and the live
product in each of its three modes with 1, 2 or 4 acceptors/workers and concurrent clients.
Oracle: per scenario, the normalised transcript - bytes the client read, whether it saw end-of-stream, and for
every origin connection of the conversation the bytes the origin read and whether the proxy closed it - is
equal in all modes.  Scripts are causally ordered, so timing cannot change a transcript.
"""
import os
import random
import shutil
import threading
from typing import Any, Dict, List, Optional, Tuple

from rig import env, driver, shim, resolver, worlds, liverig, monitors, gen_http as G

env.quiet_logging()

from rig.steprig import StepRig, make_flags, LoopDied      # noqa: E402
from rig.threadrig import ThreadRig                         # noqa: E402
from rig.peers import refused_port                          # noqa: E402
from checks import c04                                      # noqa: E402

PROPERTY = 'C17'
LEVEL = 'exploration'
LEVEL_TEXT = ('Differential exploration: 26 scenarios x {step-local (reference), step-remote, thread-per-connection} in '
              'process, and live batches of the assembled product in {threaded, threadless-local, threadless-remote} x '
              'acceptors/workers in {1,2,4} with 1..16 concurrent clients each running scenarios of the corpus. Every '
              'transcript is compared, after normalising ephemeral ports and conversation ids, with the reference '
              'transcript of the same scenario.')
LEVEL_NOTE = ('Trusted: causal ordering of the scripts, the scripted origin, normalisation of host:port and conversation ids. '
              'FIN and RST are both "closed". A harness watchdog (scenario not finished within its wall-clock cap) is '
              'inconclusive, never a difference.')
TECHNIQUE = 'differential runtime monitoring: normalised client/origin transcripts of one scenario corpus compared across execution modes'
RULE = ('case = one scenario in the three in-process modes, or one live batch (mode x acceptors x workers x concurrency) '
        'running the corpus; non-trivial = every case; distinct = scenario x mode configuration')
ASSUMPTIONS = ['origins behave deterministically (scripted by request path)']
SHARDS = {'quick': 8, 'thorough': 16}
BUDGET_S = {'quick': 150, 'thorough': 900}

_static: Dict[str, str] = {}
_ref: Dict[str, Any] = {}
PLUGINS = ['checks.c04.RouteA', 'checks.c04.RouteB', 'checks.c04.Rev']


def begin(tier: str) -> None:
    d = env.workdir('c17', str(os.getpid()))
    with open(os.path.join(d, 'small.txt'), 'w') as f:
        f.write('small static file\n')
    with open(os.path.join(d, 'large.bin'), 'wb') as f:
        f.write(G.coded(b'S', 200000))
    _static['dir'] = d


def end() -> None:
    if _static.get('dir'):
        shutil.rmtree(_static['dir'], ignore_errors=True)
    if _tls.get('dir'):
        shutil.rmtree(_tls['dir'], ignore_errors=True)


def proxy_args() -> List[str]:
    return ['--enable-web-server', '--enable-reverse-proxy', '--enable-static-server', '--static-server-dir', _static['dir'],
            '--min-compression-length', '999999999']


def scenarios(hp: bytes, refused: bytes, hp2: bytes = b'h2:2') -> Dict[str, Any]:
    def get(path: bytes, cv: bytes, target: Optional[bytes] = None) -> bytes:
        t = target if target is not None else b'http://%s%s' % (hp, path)
        return b'GET %s HTTP/1.1\r\nHost: %s\r\nX-Conv: %s\r\n\r\n' % (t, hp, cv)
    body300 = G.coded(b'u', 300)
    mb = G.coded(b'U', 1 << 20)
    S: Dict[str, Any] = {}
    S['fwd-get'] = lambda cv: [('send', get(b'/plain', cv)), ('responses', 1, [b'GET']), ('close',)]
    S['fwd-post-cl'] = lambda cv: [('send', b'POST http://%s/post HTTP/1.1\r\nHost: %s\r\nX-Conv: %s\r\nContent-Length: 300\r\n\r\n' % (hp, hp, cv) + body300),
                                   ('responses', 1, [b'POST']), ('close',)]
    S['fwd-post-chunked'] = lambda cv: [('send', b'POST http://%s/postc HTTP/1.1\r\nHost: %s\r\nX-Conv: %s\r\nTransfer-Encoding: chunked\r\n\r\n' % (hp, hp, cv)
                                         + b'5\r\nhello\r\n6\r\n world\r\n0\r\n\r\n'), ('responses', 1, [b'POST']), ('close',)]
    S['fwd-chunked-response'] = lambda cv: [('send', get(b'/chunked', cv)), ('responses', 1, [b'GET']), ('close',)]
    S['fwd-close-delimited'] = lambda cv: [('send', get(b'/close-delimited', cv)), ('eof',)]
    S['fwd-interim'] = lambda cv: [('send', get(b'/interim', cv)), ('responses', 1, [b'GET']), ('close',)]
    S['fwd-keepalive3'] = lambda cv: [('send', get(b'/k1', cv)), ('responses', 1, [b'GET']), ('send', get(b'/k2', cv)), ('responses', 2, [b'GET'] * 2),
                                      ('send', get(b'/k3', cv)), ('responses', 3, [b'GET'] * 3), ('close',)]
    S['fwd-pipelined3-packed'] = lambda cv: [('send', get(b'/p1', cv) + get(b'/p2', cv) + get(b'/p3', cv)), ('responses', 3, [b'GET'] * 3), ('close',)]
    S['fwd-request-bytewise'] = lambda cv: [('send-slow', get(b'/slow', cv), 7), ('responses', 1, [b'GET']), ('close',)]
    S['tunnel-echo'] = lambda cv: [('send', b'CONNECT %s HTTP/1.1\r\nHost: %s\r\n\r\n' % (hp, hp)), ('until', b'\r\n\r\n'),
                                   ('send', b'TUNNEL' + cv + b'-payload-1;'), ('until', b'payload-1;'), ('send', b'payload-2;'), ('until', b'payload-2;'), ('close',)]
    S['tunnel-client-half-close'] = lambda cv: [('send', b'CONNECT %s HTTP/1.1\r\nHost: %s\r\n\r\n' % (hp, hp)), ('until', b'\r\n\r\n'),
                                                ('send', b'TUNNEL' + cv + b'-bye;'), ('until', b'-bye;'), ('shutdown-wr',), ('eof',)]
    S['web-404'] = lambda cv: [('send', b'GET /nope-%s HTTP/1.1\r\nHost: w.test\r\n\r\n' % cv), ('eof',)]
    S['web-route-keepalive2'] = lambda cv: [('send', b'GET /wa/1 HTTP/1.1\r\nHost: w.test\r\nX-Req-Id: %s\r\n\r\n' % cv), ('responses', 1, [b'GET']),
                                            ('send', b'GET /wb/2 HTTP/1.1\r\nHost: w.test\r\nX-Req-Id: %s\r\n\r\n' % cv), ('responses', 2, [b'GET'] * 2), ('close',)]
    S['static-small'] = lambda cv: [('send', b'GET /small.txt?%s HTTP/1.1\r\nHost: s.test\r\n\r\n' % cv), ('eof',)]
    S['static-large'] = lambda cv: [('send', b'GET /large.bin?%s HTTP/1.1\r\nHost: s.test\r\n\r\n' % cv), ('eof',)]
    S['reverse-get'] = lambda cv: [('send', b'GET /ra/x HTTP/1.1\r\nHost: r.test\r\nX-Conv: %s\r\n\r\n' % cv), ('responses', 1, [b'GET']), ('close',)]
    S['reverse-post-keepalive'] = lambda cv: [('send', b'POST /ra/x HTTP/1.1\r\nHost: r.test\r\nX-Conv: %s\r\nContent-Length: 300\r\n\r\n' % cv + body300),
                                              ('responses', 1, [b'POST']), ('send', b'GET /ra/y HTTP/1.1\r\nHost: r.test\r\nX-Conv: %s\r\n\r\n' % cv),
                                              ('responses', 2, [b'POST', b'GET']), ('close',)]
    S['reverse-switch-upstream-keepalive'] = lambda cv: [('send', b'GET /ra/1 HTTP/1.1\r\nHost: r.test\r\nX-Conv: %s\r\n\r\n' % cv), ('responses', 1, [b'GET']),
                                                         ('send', b'GET /rb/2 HTTP/1.1\r\nHost: r.test\r\nX-Conv: %s\r\n\r\n' % cv), ('responses', 2, [b'GET'] * 2),
                                                         ('send', b'GET /ra/3 HTTP/1.1\r\nHost: r.test\r\nX-Conv: %s\r\n\r\n' % cv), ('responses', 3, [b'GET'] * 3), ('close',)]
    S['upstream-refused'] = lambda cv: [('send', b'GET http://%s/%s HTTP/1.1\r\nHost: %s\r\n\r\n' % (refused, cv, refused)), ('eof',)]
    S['upstream-unresolvable'] = lambda cv: [('send', b'GET http://no-such-host.test/%s HTTP/1.1\r\nHost: no-such-host.test\r\n\r\n' % cv), ('eof',)]
    S['upstream-reset-mid-body'] = lambda cv: [('send', get(b'/reset-mid-body', cv)), ('eof',)]
    S['upstream-close-mid-body'] = lambda cv: [('send', get(b'/close-mid-body', cv)), ('eof',)]
    S['bad-request-line'] = lambda cv: [('send', b'GARBAGE-%s\r\n\r\n' % cv), ('eof',)]
    S['unknown-scheme'] = lambda cv: [('send', b'GET ftp://h.test/%s HTTP/1.1\r\nHost: h.test\r\n\r\n' % cv), ('eof',)]
    S['big-download'] = lambda cv: [('send', get(b'/big', cv)), ('responses', 1, [b'GET']), ('close',)]
    S['big-upload'] = lambda cv: [('send', b'POST http://%s/up HTTP/1.1\r\nHost: %s\r\nX-Conv: %s\r\nContent-Length: %d\r\n\r\n' % (hp, hp, cv, len(mb)) + mb),
                                  ('responses', 1, [b'POST']), ('close',)]
    # a follow-up request the pipelined parser chokes on with something else than a protocol error (int('abc'), int('ZZ', 16)):
    # whatever a mode does with the connection then, every mode does
    S['followup-bad-content-length'] = lambda cv: [('send', get(b'/b1', cv)), ('responses', 1, [b'GET']),
                                                   ('send', b'POST http://%s/bad HTTP/1.1\r\nHost: %s\r\nX-Conv: %s\r\nContent-Length: abc\r\n\r\nxyz' % (hp, hp, cv)),
                                                   ('eof',)]
    S['followup-bad-chunk-size'] = lambda cv: [('send', get(b'/b2', cv)), ('responses', 1, [b'GET']),
                                               ('send', b'POST http://%s/bad HTTP/1.1\r\nHost: %s\r\nX-Conv: %s\r\nTransfer-Encoding: chunked\r\n\r\nZZ\r\nhello\r\n0\r\n\r\n' % (hp, hp, cv)),
                                               ('eof',)]
    S['followup-bad-then-more'] = lambda cv: [('send', get(b'/b3', cv)), ('responses', 1, [b'GET']),
                                              ('send', b'POST http://%s/bad HTTP/1.1\r\nHost: %s\r\nX-Conv: %s\r\nContent-Length: abc\r\n\r\n' % (hp, hp, cv)),
                                              ('advance', 3), ('send', get(b'/b4', cv)), ('eof',)]
    S['fwd-close-delimited-large'] = lambda cv: [('send', get(b'/close-delimited-large', cv)), ('eof',)]
    S['reverse-upstream-hangs-up-then-followup'] = lambda cv: [('send', b'GET /ra/h1 HTTP/1.1\r\nHost: r.test\r\nX-Conv: %s\r\nX-Behave: close-after\r\n\r\n' % cv),
                                                               ('responses', 1, [b'GET']), ('advance', 5),
                                                               ('send', b'GET /ra/h2 HTTP/1.1\r\nHost: r.test\r\nX-Conv: %s\r\n\r\n' % cv), ('eof',)]
    # the client says "nothing more from me" right behind its request and only then reads: the answer is still owed in full
    S['web-route-halfclose-then-read'] = lambda cv: [('send', b'GET /wa/1 HTTP/1.1\r\nHost: w.test\r\nX-Req-Id: %s\r\n\r\n' % cv), ('shutdown-wr',), ('eof',)]
    S['static-large-halfclose-then-read'] = lambda cv: [('send', b'GET /large.bin?%s HTTP/1.1\r\nHost: s.test\r\n\r\n' % cv), ('shutdown-wr',), ('eof',)]
    S['client-reset-mid-request'] = lambda cv: [('send', get(b'/never-sent', cv)[:30]), ('advance', 5), ('reset',)]
    S['client-closes-while-origin-silent'] = lambda cv: [('send', get(b'/never', cv)), ('origin-sees', cv), ('advance', 5), ('close',)]
    return S


def run_scenario(world: Any, name: str, cv: bytes, hp: bytes, refused: bytes) -> Dict[str, Any]:
    import time
    hp2 = world.origin2.hostport
    script = scenarios(hp, refused, hp2)[name](cv)
    t = worlds.run_script(world, script, deadline_s=60.0)

    def both() -> List[Tuple[bytes, str]]:
        return world.origin.transcripts_for(cv) + world.origin2.transcripts_for(cv)
    # the proxy lets go of its upstream connections once the client side is over: wait (bounded) for that to be visible
    end = time.time() + 10
    while time.time() < end:
        if all(e == 'closed' for (_, e) in both()):
            break
        world.advance()
    tr = both()

    def norm(b: bytes) -> bytes:
        return b.replace(hp, b'H:P').replace(hp2, b'H2:P').replace(cv, b'CONV').replace(refused, b'R:P')
    return {'client': norm(t['client']), 'client_end': t['client_end'], 'origin': [(norm(b), e) for (b, e) in tr], 'watchdog': t['watchdog']}


def set_routes(hp: bytes, hp2: bytes) -> Dict[str, Any]:
    r = {'A': b'http://%s/pa' % hp, 'B': b'http://%s/pb' % hp2, 'A2': None}
    c04._routes.update(r)
    return r


def in_process(name: str, mode: str, seq: int) -> Dict[str, Any]:
    origin = worlds.ScriptedOrigin('127.0.%d.%d' % (17 + seq % 200, 2 + (seq // 200) % 250))
    origin2 = worlds.ScriptedOrigin('127.1.%d.%d' % (17 + seq % 200, 2 + (seq // 200) % 250))
    hp = origin.hostport
    refused = b'127.0.0.1:%d' % refused_port('127.0.0.1')
    set_routes(hp, origin2.hostport)
    resolver.reset({})
    shim.S.reset()
    cv = b'cv%06dx' % seq
    try:
        if mode == 'thread':
            flags = make_flags(proxy_args(), plugins=[c04.RouteA, c04.RouteB, c04.Rev], cache_key='c17:t' + _static['dir'], threaded=True)
            rig: Any = ThreadRig(flags)
            w: Any = worlds.ThreadWorld(rig, origin)
            w.origin2 = origin2
        else:
            flags = make_flags(proxy_args(), plugins=[c04.RouteA, c04.RouteB, c04.Rev], cache_key='c17:s' + _static['dir'])
            rig = StepRig(flags, 'local' if mode == 'step-local' else 'remote')
            w = worlds.StepWorld(rig, origin)
            w.origin2 = origin2
        try:
            return run_scenario(w, name, cv, hp, refused)
        finally:
            rig.close()
    finally:
        origin.close()
        origin2.close()


def reference(name: str) -> Dict[str, Any]:
    if name not in _ref:
        _ref[name] = in_process(name, 'step-local', 900000 + len(_ref))
    return _ref[name]


def describe_diff(a: Dict[str, Any], b: Dict[str, Any]) -> Dict[str, Any]:
    from rig import monitors
    d: Dict[str, Any] = {}
    if a['client'] != b['client']:
        d['client'] = monitors.diff_streams(a['client'], b['client'])
    if a['client_end'] != b['client_end']:
        d['client_end'] = (a['client_end'], b['client_end'])
    if [x[0] for x in a['origin']] != [x[0] for x in b['origin']]:
        d['origin_bytes'] = {'reference_conns': len(a['origin']), 'other_conns': len(b['origin']),
                             'diff': monitors.diff_streams(b''.join(x[0] for x in a['origin']), b''.join(x[0] for x in b['origin']))}
    if [x[1] for x in a['origin']] != [x[1] for x in b['origin']]:
        d['origin_end'] = ([x[1] for x in a['origin']], [x[1] for x in b['origin']])
    return d


def run_case(case: Dict[str, Any]) -> Dict[str, Any]:
    viol: List[Dict[str, Any]] = []
    obs: Dict[str, int] = {}
    inconclusive = None
    names = sorted(scenarios(b'h:1', b'r:1').keys())
    if case['kind'] == 'live-tls':
        return run_live_tls(case)
    if case['kind'] == 'live-storm':
        return run_live_storm(case)
    if case['kind'] == 'inproc':
        name = case['scenario']
        try:
            ref = reference(name)
            runs = {mode: in_process(name, mode, case['i'] * 4 + ['step-remote', 'thread', 'step-local'].index(mode))
                    for mode in ('step-remote', 'thread', 'step-local')}
            stuck = [m for m, t in runs.items() if t['watchdog']] + (['reference'] if ref['watchdog'] else [])
            finished = [m for m, t in runs.items() if not t['watchdog']]
            if stuck and finished:
                # a conversation that some mode brings to its end while another never does is a difference between the modes, not
                # a slow machine - provided it happens again on a second attempt
                again = {m: in_process(name, m, case['i'] * 4 + 100 + k) for k, m in enumerate(x for x in stuck if x != 'reference')}
                still = [m for m, t in again.items() if t['watchdog']]
                if 'reference' in stuck:
                    _ref.pop(name, None)
                    ref = reference(name)
                    if ref['watchdog']:
                        still.append('step-local(reference)')
                if still:
                    viol.append({'key': '%s|%s-never-finishes-the-conversation-while-%s-does' % (name, '+'.join(sorted(set(x.split('(')[0] for x in still))), '+'.join(sorted(finished))),
                                 'detail': {'scenario': name, 'stuck_twice': still, 'finished': finished}})
                    return {'viol': viol, 'nontrivial': True, 'inconclusive': None, 'sig': 'inproc/' + name, 'obs': obs,
                            'sets': {'scenarios': {name}}, 'sample': {'case': case}}
                runs.update(again)
            if ref['watchdog']:
                return {'viol': [], 'inconclusive': 'reference-watchdog', 'obs': {}, 'sig': name, 'nontrivial': True}
            for mode in ('step-remote', 'thread', 'step-local'):
                t = runs[mode]
                if t['watchdog']:
                    inconclusive = 'watchdog:%s' % mode
                    continue
                d = describe_diff(ref, t)
                if d:
                    viol.append({'key': '%s|%s-differs-from-step-local|%s' % (name, mode, ','.join(sorted(d))), 'detail': {'diff': d, 'scenario': name}})
                else:
                    obs['transcripts_equal'] = obs.get('transcripts_equal', 0) + 1
                obs['mode:' + mode] = obs.get('mode:' + mode, 0) + 1
        except LoopDied as e:
            viol.append({'key': '%s|loop-died:%s' % (name, e.where()), 'detail': {'tb': e.tb[-1000:]}})
        return {'viol': viol, 'nontrivial': True, 'inconclusive': inconclusive, 'sig': 'inproc/' + name, 'obs': obs,
                'sets': {'scenarios': {name}}, 'sample': {'case': case}}
    # ---- live batch ----
    rng = random.Random('c17:%s:%s' % (case['seed'], case['i']))
    mode = case['mode']
    run_dir = env.workdir('c17', 'live-%d-%d' % (os.getpid(), case['i']))
    origin = worlds.ScriptedOrigin('127.0.%d.%d' % (rng.randint(1, 250), rng.randint(2, 250)))
    origin2 = worlds.ScriptedOrigin('127.1.%d.%d' % (rng.randint(1, 250), rng.randint(2, 250)))
    hp = origin.hostport
    refused = b'127.0.0.1:%d' % refused_port('127.0.0.1')
    routes = set_routes(hp, origin2.hostport)
    args = proxy_args() + ['--hostname', '127.0.0.1', '--port', '0', '--num-acceptors', str(case['acceptors']), '--num-workers', str(case['workers']),
                           '--log-level', 'CRITICAL']
    args += {'threaded': ['--threaded'], 'local': ['--threadless', '--local-executor', '1'], 'remote': ['--threadless', '--local-executor', '0']}[mode]
    live = None
    w = None
    cfg = '%s/a%d/w%d/c%d' % (mode, case['acceptors'], case['workers'], case['clients'])
    try:
        refs = {n: reference(n) for n in names}
        set_routes(hp, origin2.hostport)
        live = liverig.Live(args, run_dir, plugins=PLUGINS, resolver={'unused.test': '127.0.0.1'},
                            module_state={'checks.c04._routes': {k: (v.decode('latin-1') if isinstance(v, bytes) else v) for k, v in routes.items()}})
        w = worlds.LiveWorld('127.0.0.1', live.ready['port'], origin, 'live-' + mode)
        w.origin2 = origin2
        todo = [(n, b'lv%03d%03dx' % (case['i'] % 1000, k)) for k, n in enumerate(names * case.get('rounds', 1))]
        rng.shuffle(todo)
        results: Dict[Tuple[str, bytes], Dict[str, Any]] = {}
        lock = threading.Lock()

        def worker() -> None:
            while True:
                with lock:
                    if not todo:
                        return
                    n, cv = todo.pop()
                try:
                    r = run_scenario(w, n, cv, hp, refused)
                except Exception as e:      # harness-side socket trouble: inconclusive for that scenario
                    r = {'watchdog': True, 'error': repr(e)}
                with lock:
                    results[(n, cv)] = r
        ths = [threading.Thread(target=worker) for _ in range(case['clients'])]
        for t in ths:
            t.start()
        for t in ths:
            t.join(300)
        for (n, cv), t in sorted(results.items()):
            if t.get('watchdog'):
                obs['live_watchdogs'] = obs.get('live_watchdogs', 0) + 1
                continue
            if refs[n]['watchdog']:
                continue
            d = describe_diff(refs[n], t)
            if d:
                viol.append({'key': '%s|live-%s-differs-from-step-local|%s' % (n, mode, ','.join(sorted(d))),
                             'detail': {'diff': d, 'scenario': n, 'config': cfg}})
            else:
                obs['transcripts_equal'] = obs.get('transcripts_equal', 0) + 1
                obs['live_transcripts_equal'] = obs.get('live_transcripts_equal', 0) + 1
        if obs.get('live_watchdogs', 0) > len(results) // 4:
            inconclusive = 'live-watchdogs'
        down = live.shutdown()
        if down.get('tag') != 'DOWN':
            inconclusive = inconclusive or 'live-shutdown-%s' % down.get('tag')
        else:
            live.exit()
    except liverig.LiveFailed as e:
        inconclusive = 'driver-failed: %s' % str(e)[:200]
    finally:
        if w is not None:
            w.close()
        if live is not None:
            live.kill()
        origin.close()
        origin2.close()
        shutil.rmtree(run_dir, ignore_errors=True)
    obs['live_batches'] = 1
    obs['mode:live-' + mode] = 1
    seen = set()
    uniq = []
    for v in viol:
        if v['key'] not in seen:
            seen.add(v['key'])
            uniq.append(v)
    return {'viol': uniq, 'nontrivial': True, 'inconclusive': inconclusive, 'sig': 'live/' + cfg, 'obs': obs,
            'sets': {'live_configs': {cfg}}, 'sample': {'case': case}}


def run_live_storm(case: Dict[str, Any]) -> Dict[str, Any]:
    """Connect storm: many clients connect at the same instant, again and again, so that several acceptors hand connections
    to the same worker simultaneously.  Every connection gets the same bytes as in the reference mode.  A connection that is
    accepted but not answered is judged only after the storm, on an idle proxy, with sequential probes and a long wait."""
    import socket as _s
    rng = random.Random('c17storm:%s:%s' % (case['seed'], case['i']))
    mode = case['mode']
    viol: List[Dict[str, Any]] = []
    obs: Dict[str, int] = {}
    inconclusive = None
    run_dir = env.workdir('c17', 'storm-%d-%d' % (os.getpid(), case['i']))
    args = proxy_args() + ['--hostname', '127.0.0.1', '--port', '0', '--num-acceptors', str(case['acceptors']), '--num-workers', str(case['workers']),
                           '--log-level', 'CRITICAL', '--backlog', '1024']
    args += {'threaded': ['--threaded'], 'local': ['--threadless', '--local-executor', '1'], 'remote': ['--threadless', '--local-executor', '0']}[mode]
    cfg = 'storm/%s/a%d/w%d/c%d' % (mode, case['acceptors'], case['workers'], case['clients'])
    live = None
    try:
        ref = reference('web-404')
        if ref['watchdog']:
            return {'viol': [], 'inconclusive': 'reference-watchdog', 'obs': {}, 'sig': cfg, 'nontrivial': True}
        live = liverig.Live(args, run_dir, plugins=PLUGINS, resolver={'unused.test': '127.0.0.1'})
        addr = ('127.0.0.1', live.ready['port'])

        def one(cv: bytes, timeout: float) -> Tuple[str, bytes]:
            c = _s.socket(_s.AF_INET, _s.SOCK_STREAM)
            c.settimeout(timeout)
            rx = b''
            try:
                c.connect(addr)
                c.sendall(b'GET /nope-%s HTTP/1.1\r\nHost: w.test\r\n\r\n' % cv)
                while True:
                    d = c.recv(65536)
                    if not d:
                        return ('eof', rx.replace(cv, b'CONV'))
                    rx += d
            except _s.timeout:
                return ('unanswered', rx)
            except OSError as e:
                return ('error:%s' % type(e).__name__, rx)
            finally:
                c.close()
        results: List[Tuple[bytes, str, bytes]] = []
        lock = threading.Lock()
        barrier = threading.Barrier(case['clients'])

        def client(k: int) -> None:
            for j in range(case['per_client']):
                if j % 5 == 0:
                    try:
                        barrier.wait(5)         # re-align: everybody connects at the same instant again
                    except threading.BrokenBarrierError:
                        pass
                cv = b'st%03d%02d%03d' % (case['i'] % 1000, k, j)
                r = one(cv, 30.0)
                with lock:
                    results.append((cv, r[0], r[1]))
                if r[0] != 'eof':
                    barrier.abort()
                    return
        ths = [threading.Thread(target=client, args=(k,)) for k in range(case['clients'])]
        for t in ths:
            t.start()
        for t in ths:
            t.join(600)
        good = [r for r in results if r[1] == 'eof']
        for (cv, how, rx) in good:
            if rx != ref['client']:
                viol.append({'key': 'web-404|storm-%s-differs-from-step-local|client' % mode,
                             'detail': {'config': cfg, 'diff': monitors.diff_streams(ref['client'], rx)}})
                break
        obs['storm_connections_served'] = len(good)
        unanswered = [r for r in results if r[1] != 'eof']
        if unanswered:
            # idle now: sequential probes, several per acceptor x worker pair
            failed = 0
            n = 3 * case['acceptors'] * max(1, case['workers'])
            for k in range(n):
                r = one(b'pr%03d%03d' % (case['i'] % 1000, k), 30.0)
                if r[0] != 'eof' or r[1] != ref['client']:
                    failed += 1
                    if failed >= 3:
                        break       # three unanswered probes on an idle proxy are witness enough
            if failed:
                viol.append({'key': 'web-404|storm-%s|connections-never-served-after-concurrent-connects' % mode,
                             'detail': {'config': cfg, 'storm_unanswered': len(unanswered), 'storm_served': len(good),
                                        'probes_failed_on_idle_proxy': failed, 'probes': n, 'how': sorted({r[1] for r in unanswered})}})
            else:
                inconclusive = 'storm-unanswered-but-idle-probes-fine'
        down = live.shutdown()
        if down.get('tag') == 'DOWN':
            live.exit()
    except liverig.LiveFailed as e:
        if not viol:
            inconclusive = 'driver-failed: %s' % str(e)[:200]
    finally:
        if live is not None:
            live.kill()
        shutil.rmtree(run_dir, ignore_errors=True)
    obs['storm_batches'] = 1
    obs['mode:storm-' + mode] = 1
    return {'viol': viol, 'nontrivial': True, 'inconclusive': inconclusive, 'sig': cfg, 'obs': obs,
            'sets': {'live_configs': {cfg}}, 'sample': {'case': case}}


_tls: Dict[str, str] = {}


def tls_files() -> Tuple[str, str]:
    if not _tls:
        import subprocess
        d = env.workdir('c17', 'tls-%d' % os.getpid())
        key, crt = os.path.join(d, 'front.key'), os.path.join(d, 'front.crt')
        subprocess.run(['openssl', 'req', '-x509', '-newkey', 'rsa:2048', '-nodes', '-keyout', key, '-out', crt, '-days', '2',
                        '-subj', '/CN=front.test'], check=True, capture_output=True, timeout=60)
        _tls.update({'key': key, 'crt': crt, 'dir': d})
    return _tls['key'], _tls['crt']


def run_live_tls(case: Dict[str, Any]) -> Dict[str, Any]:
    """The proxy's own TLS front (--key-file/--cert-file) in the three live modes: clients whose handshake fails
    (plain HTTP, garbage, truncated ClientHello) and a proper TLS client.  Transcripts must agree pairwise."""
    import ssl
    import time
    import socket as _socket
    key, crt = tls_files()
    viol: List[Dict[str, Any]] = []
    obs: Dict[str, int] = {}
    inconclusive = None
    per_mode: Dict[str, Dict[str, Any]] = {}
    for mode in ('threaded', 'local', 'remote'):
        run_dir = env.workdir('c17', 'livetls-%d-%d-%s' % (os.getpid(), case['i'], mode))
        args = ['--enable-web-server', '--key-file', key, '--cert-file', crt, '--hostname', '127.0.0.1', '--port', '0',
                '--num-acceptors', str(case['acceptors']), '--num-workers', str(case['workers']), '--log-level', 'CRITICAL']
        args += {'threaded': ['--threaded'], 'local': ['--threadless', '--local-executor', '1'], 'remote': ['--threadless', '--local-executor', '0']}[mode]
        live = None
        res: Dict[str, Any] = {}
        try:
            live = liverig.Live(args, run_dir, plugins=PLUGINS[:2])
            port = live.ready['port']
            for name, hello, close_after in (('plain-http', b'GET / HTTP/1.1\r\nHost: x\r\n\r\n', False), ('garbage', bytes(range(200)), False),
                                             ('truncated-hello', b'\x16\x03\x01\x02\x00\x01\x00\x01\xfc\x03\x03' + b'\x00' * 20, True)):
                sk = _socket.socket(_socket.AF_INET, _socket.SOCK_STREAM)
                sk.settimeout(20)
                sk.connect(('127.0.0.1', port))
                sk.sendall(hello)
                if close_after:
                    sk.shutdown(_socket.SHUT_WR)
                got = b''
                ended = 'open'
                try:
                    while True:
                        d = sk.recv(4096)
                        if not d:
                            ended = 'closed'
                            break
                        got += d
                except _socket.timeout:
                    ended = 'open'
                except OSError:
                    ended = 'closed'
                sk.close()
                res[name] = {'client': got, 'client_end': ended}
            # a proper TLS client right after the failures (same workers)
            ctx = ssl.create_default_context()
            ctx.check_hostname = False
            ctx.verify_mode = ssl.CERT_NONE
            for k in range(case['acceptors'] * max(1, case['workers']) + 1):
                sk = _socket.create_connection(('127.0.0.1', port), timeout=20)
                try:
                    t = ctx.wrap_socket(sk)
                    # two requests on one TLS connection: the route registered for HTTPS answers both
                    t.sendall(b'GET /was/tls1 HTTP/1.1\r\nHost: w.test\r\nX-Req-Id: tls1\r\n\r\n')
                    got = b''
                    try:
                        while b'WA|tls1|' not in got:
                            d = t.recv(4096)
                            if not d:
                                break
                            got += d
                        if b'WA|tls1|' in got:
                            t.sendall(b'GET /was/tls HTTP/1.1\r\nHost: w.test\r\nX-Req-Id: tls\r\nConnection: close\r\n\r\n')
                            while b'WA|tls|' not in got:
                                d = t.recv(4096)
                                if not d:
                                    break
                                got += d
                    except (OSError, _socket.timeout):
                        pass
                    res['tls-get-%d' % k] = {'client': got, 'client_end': 'n/a'}
                    if b'WA|tls1|' in got and b'WA|tls|' not in got:
                        viol.append({'key': 'tls-front:tls|live-%s|follow-up-on-a-TLS-connection-not-answered-by-its-HTTPS-route' % mode,
                                     'detail': {'client': got[-300:]}})
                    elif b'WA|tls|' in got:
                        obs['tls_front_followups_answered'] = obs.get('tls_front_followups_answered', 0) + 1
                    t.close()
                except (ssl.SSLError, OSError) as e:
                    res['tls-get-%d' % k] = {'client': b'handshake-failed:' + type(e).__name__.encode(), 'client_end': 'n/a'}
                    sk.close()
            down = live.shutdown()
            if down.get('tag') == 'DOWN':
                live.exit()
        except liverig.LiveFailed as e:
            inconclusive = 'driver-failed: %s' % str(e)[:200]
        except OSError as e:
            inconclusive = 'harness: %r' % e
        finally:
            if live is not None:
                live.kill()
            shutil.rmtree(run_dir, ignore_errors=True)
        per_mode[mode] = res
        obs['mode:live-' + mode] = 1
    if not inconclusive:
        ref = per_mode['threaded']
        for mode in ('local', 'remote'):
            for name in sorted(ref):
                a, b = ref[name], per_mode[mode].get(name)
                if b is None or a != b:
                    viol.append({'key': 'tls-front:%s|live-%s-differs-from-live-threaded' % (name.split('-get-')[0] if 'tls-get' in name else name, mode),
                                 'detail': {'threaded': a, mode: b}})
                else:
                    obs['transcripts_equal'] = obs.get('transcripts_equal', 0) + 1
                    obs['tls_front_transcripts_equal'] = obs.get('tls_front_transcripts_equal', 0) + 1
    seen = set()
    uniq = []
    for v in viol:
        if v['key'] not in seen:
            seen.add(v['key'])
            uniq.append(v)
    return {'viol': uniq, 'nontrivial': True, 'inconclusive': inconclusive, 'sig': 'livetls/%s' % case['i'], 'obs': obs, 'sample': {'case': case}}


def cases(tier: str, seed: int):
    rng = random.Random('c17cases:%d' % seed)
    names = sorted(scenarios(b'h:1', b'r:1').keys())
    i = 0
    for rep in range(1 if tier == 'quick' else 6):
        for n in names:
            i += 1
            yield {'seed': seed, 'i': i, 'kind': 'inproc', 'scenario': n}
    if tier == 'quick':
        cfgs = [('threaded', 1, 1, 4), ('local', 2, 1, 8), ('remote', 1, 2, 8), ('remote', 2, 4, 16), ('local', 1, 1, 1), ('threaded', 4, 1, 16)]
    else:
        cfgs = [(m, a, wk, c) for m in ('threaded', 'local', 'remote') for a in (1, 2, 4) for wk in ((1,) if m != 'remote' else (1, 2, 4)) for c in (1, 4, 16)]
    for (a, wk) in ([(1, 1), (2, 2)] if tier == 'quick' else [(1, 1), (2, 2), (4, 4), (1, 4), (4, 1)]):
        i += 1
        yield {'seed': seed, 'i': i, 'kind': 'live-tls', 'acceptors': a, 'workers': wk}
    for (m, a, wk, c, per) in ([('remote', 4, 1, 16, 40), ('remote', 2, 2, 16, 40), ('local', 4, 1, 16, 25), ('threaded', 2, 1, 16, 25)] if tier == 'quick' else
                               [(m, a, wk, c, 60) for m in ('remote', 'local', 'threaded') for (a, wk) in ((2, 1), (4, 1), (4, 2), (8, 1)) for c in (8, 32)]):
        i += 1
        yield {'seed': seed, 'i': i, 'kind': 'live-storm', 'mode': m, 'acceptors': a, 'workers': wk, 'clients': c, 'per_client': per}
    for (m, a, wk, c) in cfgs:
        i += 1
        yield {'seed': seed, 'i': i, 'kind': 'live', 'mode': m, 'acceptors': a, 'workers': wk, 'clients': c, 'rounds': 1 if tier == 'quick' else 3}


def floors(tier: str) -> Dict[str, int]:
    return {'transcripts_equal': 150, 'live_transcripts_equal': 100, 'live_batches': 5, 'mode:step-remote': 20, 'mode:thread': 20,
            'mode:live-threaded': 1, 'mode:live-local': 1, 'mode:live-remote': 1, 'distinct:scenarios': 31,
            'tls_front_transcripts_equal': 8, 'storm_batches': 4, 'storm_connections_served': 1500, 'tls_front_followups_answered': 6}


if __name__ == '__main__':
    raise SystemExit(driver.main(__import__('checks.c17', fromlist=['x'])))

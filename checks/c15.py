"""C15 — HTTP message and chunked codecs round-trip and agree with a reference.

Direct rig: builders, parser rebuild, update_body and the chunk codec are called on
generated arguments; every result is checked by round-trip laws, by h11 (independent
parser) and by a reference chunked decoder written from RFC 9112.
"""
import gzip
import random
from typing import Any, Dict, List, Optional, Tuple

from rig import env, driver, h11util, refcodec, gen_http as G

env.quiet_logging()

from proxy.http.parser import HttpParser, httpParserTypes, ChunkParser, chunkParserStates   # noqa: E402
from proxy.common.utils import build_http_request, build_http_response                    # noqa: E402
from proxy.http.responses import okResponse, permanentRedirectResponse, seeOthersResponse  # noqa: E402

PROPERTY = 'C15'
LEVEL = 'exploration'
LEVEL_TEXT = ('Exploration: generated arguments for every builder and generated valid messages for every re-serialiser '
              '(both parser types, Content-Length / chunked incl. empty body, chunk extensions, trailers, gzip via '
              'update_body), chunk sizes 1..n exhaustively for short bodies; each output judged by round-trip laws, '
              'h11 and a reference chunked decoder.')
LEVEL_NOTE = 'Trusted: h11 0.16, rig/refcodec.py (RFC 9112 7.1 decoder), the generator.'
TECHNIQUE = 'runtime monitoring of codec return values: round-trip laws + differential testing against h11 and a reference chunked decoder'
RULE = ('case = (law, generated arguments); laws: L1 request build->parse, L2 response build->parse, L3 parse->build->parse, '
        'L4 update_body->build, L5 to_chunks/decoder inverse for every chunk size, L6 decoder vs reference decoder, '
        'L7 canned/ok/redirect responses, L8 builders with a reused / Content-Length-carrying headers dict; non-trivial = message has a body or >=2 headers; distinct = law x argument hash')
ASSUMPTIONS = ['arguments stay in the valid domain: token methods/names, CRLF-free values and reasons, status 100-599, '
               'bodies only where a body is allowed, no_cl only together with conn_close']
SHARDS = {'quick': 8, 'thorough': 16}
BUDGET_S = {'quick': 45, 'thorough': 800}
EXHAUSTIVE = {'quick': ['L5: every chunk size 1..len+2 for each generated body <= 40 bytes'],
              'thorough': ['L5: every chunk size 1..len+2 for each generated body <= 300 bytes']}


def hmap(headers: Any) -> Dict[bytes, bytes]:
    if headers is None:
        return {}
    if isinstance(headers, dict):
        # HttpParser.headers: lower -> (orig, value)
        return {k.lower(): (v[1] if isinstance(v, tuple) else v).strip() for k, v in headers.items()}
    return {k.lower(): v.strip() for k, v in headers}


def gen_headers(rng: random.Random, n: int, reserved: List[bytes]) -> Dict[bytes, bytes]:
    return dict(G.extra_headers(rng, n, reserved))


def law_L1(rng: random.Random, out: Dict[str, Any]) -> None:
    method = rng.choice(G.METHODS + [G.token(rng, 1, 8).upper()])
    form = rng.choice(['origin', 'absolute'])
    path = b'/' + G.token(rng) + (b'?a=' + G.token(rng) if rng.random() < 0.5 else b'')
    url = path if form == 'origin' else b'http://example.test:8080' + path
    version = rng.choice([b'HTTP/1.1', b'HTTP/1.1', b'HTTP/1.0'])
    headers = gen_headers(rng, rng.randint(0, 5), [b'host', b'content-length', b'transfer-encoding', b'connection',
                                                   b'content-type', b'user-agent'])
    headers[b'Host'] = b'example.test:8080'
    body = rng.choice([None, b'', G.body_bytes(rng, rng.choice([1, 10, 300, 70000]))])
    chunked = body is not None and rng.random() < 0.3
    wire_body = body
    if chunked:
        headers[b'Transfer-Encoding'] = b'chunked'
        wire_body = ChunkParser.to_chunks(body or b'', rng.choice([1, 7, 1000, 128 * 1024]))
    ctype = rng.choice([None, b'application/json'])
    conn_close = rng.random() < 0.3
    no_ua = rng.random() < 0.5
    want = dict(hmap(list(headers.items())))
    raw = build_http_request(method, url, version, content_type=ctype, headers=dict(headers), body=wire_body,
                             conn_close=conn_close, no_ua=no_ua)
    if ctype:
        want[b'content-type'] = ctype
    if wire_body and not chunked:
        want[b'content-length'] = b'%d' % len(wire_body)
    if conn_close:
        want[b'connection'] = b'close'
    out['cls'] = 'chunked' if chunked else ('body' if body else 'nobody')
    out['nontrivial'] = bool(body) or len(headers) >= 2
    out['input'] = {'method': method, 'url': url, 'headers': len(headers), 'body_len': len(body or b''), 'chunked': chunked}
    p = HttpParser.request(raw)
    got = hmap(p.headers)
    ua = got.pop(b'user-agent', None)
    if (ua is None) != no_ua:
        out['bad'].append(('ours-user-agent', ua))
    if not p.is_complete:
        out['bad'].append(('ours-incomplete', p.state))
    if p.method != method or p.version != version:
        out['bad'].append(('ours-start-line', (p.method, p.version)))
    if (p.path or b'') != path:
        out['bad'].append(('ours-path', (p.path, path)))
    if form == 'absolute' and (p.host, p.port) != (b'example.test', 8080):
        out['bad'].append(('ours-host-port', (p.host, p.port)))
    if got != want:
        out['bad'].append(('ours-headers', {k: (want.get(k), got.get(k)) for k in set(want) | set(got) if want.get(k) != got.get(k)}))
    if (p.body or b'') != (body or b''):
        out['bad'].append(('ours-body', (len(p.body or b''), len(body or b''))))
    msgs, err, left = h11util.parse_requests(raw)
    if err or len(msgs) != 1 or not msgs[0]['complete'] or left:
        out['bad'].append(('h11-rejects', err or ('msgs=%d left=%d' % (len(msgs), len(left)))))
    else:
        m = msgs[0]
        hg = hmap(m['headers'])
        hg.pop(b'user-agent', None)
        if m['method'] != method or m['target'] != url or m['body'] != (body or b'') or hg != want:
            out['bad'].append(('h11-differs', (m['method'], m['target'], len(m['body']))))


NO_BODY_CODES = [100, 101, 102, 103, 204, 304]


def law_L2(rng: random.Random, out: Dict[str, Any]) -> None:
    code = rng.choice([200, 201, 204, 301, 304, 400, 404, 407, 500, 502, 599, 100, 103, rng.randint(100, 599)])
    if code == 101:
        code = 200
    version = rng.choice([b'HTTP/1.1', b'HTTP/1.1', b'HTTP/1.0'])
    reason = rng.choice([None, b'OK', b'Not Found', b'BAD REQUEST', b'with  two spaces', b'Caf\xe9'])
    headers = gen_headers(rng, rng.randint(0, 5), [b'content-length', b'transfer-encoding', b'connection'])
    body_ok = code >= 200 and code not in NO_BODY_CODES
    body = rng.choice([None, b'', G.body_bytes(rng, rng.choice([1, 10, 300, 70000]))]) if body_ok else None
    chunked = body_ok and body is not None and rng.random() < 0.3
    wire_body = body
    if chunked:
        headers[b'Transfer-Encoding'] = b'chunked'
        wire_body = ChunkParser.to_chunks(body or b'', rng.choice([1, 7, 1000]))
    conn_close = rng.random() < 0.4
    no_cl = conn_close and rng.random() < 0.4 and code >= 200
    if body_ok and not chunked and rng.random() < 0.12:
        # the barest valid response: a status line, the blank line and a body that ends with the connection - no header field
        headers, conn_close, no_cl = {}, False, True
        out['bare'] = True
    want = dict(hmap(list(headers.items())))
    raw = build_http_response(code, version, reason, headers=dict(headers), body=wire_body, conn_close=conn_close, no_cl=no_cl)
    if not chunked and not no_cl:
        want[b'content-length'] = b'%d' % len(wire_body or b'')
    if conn_close:
        want[b'connection'] = b'close'
    out['cls'] = ('1xx' if code < 200 else 'bare-nobody' if out.get('bare') and not body else 'bare' if out.get('bare') else
                  'nobody' if not body else 'chunked' if chunked else 'close' if no_cl else 'cl')
    out['nontrivial'] = bool(body) or len(headers) >= 2
    out['input'] = {'code': code, 'reason': reason, 'headers': len(headers), 'body_len': len(body or b''),
                    'chunked': chunked, 'no_cl': no_cl, 'conn_close': conn_close}
    p = HttpParser.response(raw)
    if p.code != b'%d' % code or p.version != version or (p.reason or None) != (reason or None):
        out['bad'].append(('ours-start-line', (p.code, p.version, p.reason)))
    if hmap(p.headers) != want:
        got = hmap(p.headers)
        out['bad'].append(('ours-headers', {k: (want.get(k), got.get(k)) for k in set(want) | set(got) if want.get(k) != got.get(k)}))
    if (p.body or b'') != (body or b''):
        out['bad'].append(('ours-body', (len(p.body or b''), len(body or b''))))
    if not no_cl and not p.is_complete:
        out['bad'].append(('ours-incomplete', p.state))
    msgs, err, left = h11util.parse_responses(raw, [b'GET'], eof=no_cl)
    final = [m for m in msgs if not m.get('interim')]
    if code < 200:
        if err or not msgs or msgs[0]['code'] != code:
            out['bad'].append(('h11-rejects', err))
    elif err or len(final) != 1 or not final[0]['complete'] or left:
        out['bad'].append(('h11-rejects', err or ('msgs=%d left=%d' % (len(msgs), len(left)))))
    elif final[0]['code'] != code or final[0]['body'] != (body or b''):
        out['bad'].append(('h11-differs', (final[0]['code'], len(final[0]['body']))))


def law_L3(rng: random.Random, out: Dict[str, Any]) -> None:
    kind = rng.choice(['req', 'resp'])
    fr = rng.choice(['none', 'cl', 'cl0', 'chunked', 'chunked-empty', 'chunked-ext', 'chunked-trailers'])
    framing = {'none': 'none', 'cl': 'cl', 'cl0': 'cl'}.get(fr, 'chunked')
    body = b'' if fr in ('cl0', 'chunked-empty', 'none') else G.body_bytes(rng, rng.choice([1, 5, 300, 5000]))
    if kind == 'req':
        target = rng.choice([b'/a/b?c=d', b'http://h.test/a/b?c=d', b'http://h.test:81/'])
        m = G.gen_request(rng, target=target, host_header=b'h.test', framing=framing, body=body,
                          ext=(fr == 'chunked-ext'), trailers=(fr == 'chunked-trailers'),
                          version=b'HTTP/1.1' if framing == 'chunked' or rng.random() < 0.6 else rng.choice([b'HTTP/1.0', b'HTTP/1.0', b'HTTP/1.2']))
        p = HttpParser.request(m.raw)
        z = p.build()
        q = HttpParser.request(z)
    else:
        if framing == 'none':
            framing, fr = 'cl', 'cl0'
        m = G.gen_response(rng, framing=framing, body=body, ext=(fr == 'chunked-ext'), trailers=(fr == 'chunked-trailers'),
                           version=b'HTTP/1.1' if framing == 'chunked' or rng.random() < 0.6 else b'HTTP/1.0')
        p = HttpParser.response(m.raw)
        z = p.build_response()
        q = HttpParser.response(z)
    out['cls'] = '%s-%s%s' % (kind, fr, '' if m.version == b'HTTP/1.1' else '-' + m.version.decode())
    out['nontrivial'] = bool(m.body) or len(m.headers) >= 2
    out['input'] = {'message': m.raw[:400], 'desc': m.describe()}
    if not p.is_complete:
        out['bad'].append(('parse-incomplete', p.state))
        return
    if (p.body or b'') != m.body:
        out['bad'].append(('parse-body', (len(p.body or b''), len(m.body))))
    same = (q.is_complete and q.method == p.method and q.path == p.path and q.version == p.version and q.code == p.code
            and (q.reason or None) == (p.reason or None) and hmap(q.headers) == hmap(p.headers) and (q.body or b'') == (p.body or b''))
    if not same:
        out['bad'].append(('rebuild-reparse-differs', {'z': z[:300], 'q_complete': q.is_complete}))
    if kind == 'req':
        msgs, err, left = h11util.parse_requests(z)
    else:
        msgs, err, left = h11util.parse_responses(z, [b'GET'], eof=False)
        msgs = [x for x in msgs if not x.get('interim')]
    if err or len(msgs) != 1 or not msgs[0]['complete'] or left:
        out['bad'].append(('rebuild-h11-rejects', err or ('msgs=%d left=%d complete=%s' % (
            len(msgs), len(left), msgs[0]['complete'] if msgs else None))))
    elif msgs[0]['body'] != m.body:
        out['bad'].append(('rebuild-h11-body', (len(msgs[0]['body']), len(m.body))))


def law_L4(rng: random.Random, out: Dict[str, Any]) -> None:
    enc = rng.choice(['gzip', 'identity-none', 'br', 'gzip'])
    fr = rng.choice(['cl', 'chunked'])
    more = [(b'Content-Type', b'text/old')] if rng.random() < 0.5 else []
    if enc == 'gzip':
        more.append((b'Content-Encoding', b'gzip'))
    elif enc == 'br':
        more.append((b'Content-Encoding', b'br'))
    old = G.body_bytes(rng, rng.choice([1, 50, 700]))
    m = G.gen_request(rng, target=b'http://h.test/p', host_header=b'h.test', framing=fr, method=b'POST',
                      body=gzip.compress(old) if enc == 'gzip' else old, more_headers=more)
    nb = G.body_bytes(rng, rng.choice([0, 1, 20, 900, 70000]))
    p = HttpParser.request(m.raw)
    out['cls'] = '%s-%s%s' % (fr, enc, '-empty' if not nb else '')
    out['nontrivial'] = True
    out['input'] = {'message': m.raw[:300], 'new_body_len': len(nb)}
    p.update_body(nb, b'application/x-new')
    z = p.build()
    msgs, err, left = h11util.parse_requests(z)
    if err or len(msgs) != 1 or not msgs[0]['complete'] or left:
        out['bad'].append(('h11-rejects', err or ('msgs=%d left=%d' % (len(msgs), len(left)))))
        return
    hg = hmap(msgs[0]['headers'])
    got = msgs[0]['body']
    if hg.get(b'content-encoding') == b'gzip':
        try:
            got = gzip.decompress(got)
        except Exception as e:
            out['bad'].append(('gzip-undecodable', repr(e)))
            return
    elif b'content-encoding' in hg:
        out['bad'].append(('stale-content-encoding', hg[b'content-encoding']))
    if got != nb:
        out['bad'].append(('body-differs', (len(got), len(nb), got[:60])))
    if hg.get(b'content-type') != b'application/x-new':
        out['bad'].append(('content-type', hg.get(b'content-type')))
    q = HttpParser.request(z)
    qb = q.body or b''
    if q.has_header(b'content-encoding') and q.header(b'content-encoding') == b'gzip' and qb:
        try:
            qb = gzip.decompress(qb)
        except Exception:
            qb = b'<undecodable>'
    if not q.is_complete or qb != nb:
        out['bad'].append(('ours-reparse', (q.is_complete, len(qb))))
    # a message may be edited and serialised again and again (a plugin masking digits in place): each serialisation carries the
    # body as it is at that moment - same length as before included
    if nb and not out['bad']:
        for rnd in range(2):
            nb2 = bytes(((b + 1 + rnd) % 256) for b in nb[:2000]) + nb[2000:]
            if rng.random() < 0.5:
                p.update_body(nb2, b'application/x-new')
            else:
                p.body = gzip.compress(nb2) if enc == 'gzip' and p.has_header(b'content-encoding') else nb2
            z2 = p.build()
            ms2, err2, left2 = h11util.parse_requests(z2)
            if err2 or len(ms2) != 1 or not ms2[0]['complete'] or left2:
                out['bad'].append(('rebuild-after-same-length-edit-h11-rejects', err2))
                break
            g2 = ms2[0]['body']
            if hmap(ms2[0]['headers']).get(b'content-encoding') == b'gzip':
                try:
                    g2 = gzip.decompress(g2)
                except Exception:
                    g2 = b'<undecodable>'
            if g2 != nb2:
                out['bad'].append(('rebuild-after-same-length-edit-carries-old-body', (len(g2), g2[:20], nb2[:20])))
                break


def law_L5(rng: random.Random, out: Dict[str, Any], exhaustive_max: int) -> None:
    n = rng.choice([0, 1, 2, 3, 7, 16, 40] + ([150, 300] if exhaustive_max >= 300 else []))
    b = G.body_bytes(rng, n)
    out['cls'] = 'len%d' % (0 if n == 0 else 1 if n < 8 else 2)
    out['nontrivial'] = n > 0
    out['input'] = {'body_len': n}
    sizes = list(range(1, n + 3)) if n <= exhaustive_max else [1, 2, n - 1, n, n + 1, 128 * 1024]
    out['extra_obs'] = {'L5_chunk_sizes': len(sizes)}
    for k in sizes:
        enc = ChunkParser.to_chunks(b, k)
        cp = ChunkParser()
        rem = bytes(cp.parse(memoryview(enc)))
        if cp.state != chunkParserStates.COMPLETE or cp.body != b or rem:
            out['bad'].append(('ours-not-inverse', {'k': k, 'n': n}))
        try:
            rb, _, used = refcodec.dechunk(enc)
            if rb != b or used != len(enc):
                out['bad'].append(('reference-differs', {'k': k, 'n': n, 'enc': enc[:80]}))
        except Exception as e:
            out['bad'].append(('encoder-invalid-per-reference', {'k': k, 'n': n, 'err': repr(e), 'enc': enc[:80]}))


def law_L6(rng: random.Random, out: Dict[str, Any]) -> None:
    fr = rng.choice(['chunked', 'chunked-ext', 'chunked-trailers'])
    m = G.gen_response(rng, framing='chunked', body=G.body_bytes(rng, rng.choice([0, 1, 9, 300, 5000])), nheaders=0,
                       ext=(fr == 'chunked-ext'), trailers=(fr == 'chunked-trailers'), plain=True)
    start = [z for z in m.zones if z[2] == 'blank-line'][0][1]
    stream = m.raw[start:]
    out['cls'] = fr
    out['nontrivial'] = len(m.body) > 0
    out['input'] = {'stream': stream[:300]}
    rb, _, used = refcodec.dechunk(stream)
    assert rb == m.body and used == len(stream)
    cp = ChunkParser()
    try:
        rem = bytes(cp.parse(memoryview(stream + b'TRAIL')))
    except Exception as e:
        out['bad'].append(('ours-exception:' + type(e).__name__, repr(e)))
        return
    if cp.state != chunkParserStates.COMPLETE or cp.body != rb or rem != b'TRAIL':
        out['bad'].append(('ours-differs-from-reference', {'state': cp.state, 'body': len(cp.body), 'rem': rem[:40]}))
        return
    # the same stream handed to the decoder in pieces (as a socket would deliver it) must decode to the same body
    for _ in range(4):
        data = stream + b'TRAIL'
        cuts = sorted({rng.randint(1, len(stream) - 1) for _ in range(rng.choice([1, 2, 4, 9]))}) if len(stream) > 1 else []
        pieces = G.cut_at(data, cuts)
        cp = ChunkParser()
        rem = b''
        try:
            for k, pc in enumerate(pieces):
                rem = bytes(cp.parse(memoryview(pc)))
                if cp.state == chunkParserStates.COMPLETE:
                    rem += b''.join(pieces[k + 1:])
                    break
        except Exception as e:
            out['bad'].append(('ours-piecewise-exception:' + type(e).__name__, {'cuts': cuts, 'err': repr(e)}))
            return
        out['extra_obs'] = {'L6_piecewise_feeds': out.get('extra_obs', {}).get('L6_piecewise_feeds', 0) + 1}
        if cp.state != chunkParserStates.COMPLETE or cp.body != rb or rem != b'TRAIL':
            out['bad'].append(('ours-piecewise-differs-from-reference', {'cuts': cuts, 'state': cp.state, 'body': len(cp.body), 'want': len(rb), 'rem': rem[:40]}))
            return


def law_L7(rng: random.Random, out: Dict[str, Any]) -> None:
    which = rng.choice(['ok', 'ok', 'ok', 'redirect', 'seeother'])
    out['nontrivial'] = True
    if which == 'ok':
        content = rng.choice([None, b'', G.body_bytes(rng, rng.choice([1, 19, 20, 21, 22, 300, 70000])),
                              gzip.compress(G.body_bytes(rng, rng.choice([1, 30, 3000])), mtime=0)])
        mcl = rng.choice([0, 20, 20, 21, 1000])
        compress = rng.random() < 0.7
        headers = gen_headers(rng, rng.randint(0, 3), [b'content-length', b'content-encoding', b'connection', b'transfer-encoding']) or None
        conn_close = rng.random() < 0.5
        out['cls'] = 'ok-%s' % ('gz' if compress and content and len(content) > mcl else 'plain')
        out['input'] = {'content_len': len(content or b''), 'min_compression_length': mcl, 'compress': compress}
        raw = bytes(okResponse(content=content, headers=dict(headers) if headers else None, compress=compress,
                               min_compression_length=mcl, conn_close=conn_close))
        want_code, want_body = 200, content or b''
    else:
        loc = b'http://' + G.token(rng) + b'.test/' + G.token(rng)
        out['cls'] = which
        out['input'] = {'location': loc}
        raw = bytes(permanentRedirectResponse(loc) if which == 'redirect' else seeOthersResponse(loc))
        want_code, want_body = (308 if which == 'redirect' else 303), b''
    msgs, err, left = h11util.parse_responses(raw, [b'GET'], eof=False)
    if err or len(msgs) != 1 or not msgs[0]['complete'] or left:
        out['bad'].append(('h11-rejects', err or ('msgs=%d left=%d' % (len(msgs), len(left)))))
        return
    got = msgs[0]['body']
    if hmap(msgs[0]['headers']).get(b'content-encoding') == b'gzip':
        got = gzip.decompress(got)
    if msgs[0]['code'] != want_code or got != want_body:
        out['bad'].append(('differs', (msgs[0]['code'], len(got))))


def _consistent(raw: bytes, want_code: int, want_body: bytes) -> Optional[Tuple[str, Any]]:
    """A response generated by the library is self-consistent for an independent parser: one complete message,
    nothing left over, body (after undoing gzip) equal to the content that was asked for."""
    msgs, err, left = h11util.parse_responses(raw, [b'GET'], eof=False)
    if err or len(msgs) != 1 or not msgs[0]['complete'] or left:
        return ('h11-rejects', err or ('msgs=%d complete=%s left=%d' % (len(msgs), [m['complete'] for m in msgs], len(left))))
    got = msgs[0]['body']
    if hmap(msgs[0]['headers']).get(b'content-encoding') == b'gzip':
        try:
            got = gzip.decompress(got)
        except Exception as e:
            return ('bad-gzip', repr(e))
    if msgs[0]['code'] != want_code or got != want_body:
        return ('differs', (msgs[0]['code'], len(got), len(want_body)))
    return None


def law_L8(rng: random.Random, out: Dict[str, Any]) -> None:
    """Builders called the way plugins call them: a headers dict that is reused for several responses (module- or
    class-level constant), and/or that already carries a Content-Length (as seeOthersResponse itself passes one).
    Every response must be self-consistent and must not depend on what was built before with the same dict."""
    out['nontrivial'] = True
    shared: Dict[bytes, bytes] = dict(gen_headers(rng, rng.randint(0, 2), [b'content-length', b'content-encoding', b'connection', b'transfer-encoding']))
    bodies = [G.body_bytes(rng, rng.choice([0, 1, 7, 19, 21, 30, 300, 5000])) for _ in range(rng.choice([2, 3]))]
    mode = rng.choice(['ok', 'ok', 'build', 'reject'])
    preset_cl = rng.random() < 0.4
    out['cls'] = '%s-%s' % (mode, 'preset-cl' if preset_cl else 'shared')
    out['input'] = {'mode': mode, 'bodies': [len(b) for b in bodies], 'preset_content_length': preset_cl, 'shared_headers': len(shared)}
    if preset_cl:
        shared[rng.choice([b'Content-Length', b'content-length'])] = b'%d' % len(bodies[0])
    for k, body in enumerate(bodies):
        if mode == 'ok':
            raw = bytes(okResponse(content=body, headers=shared, compress=True, min_compression_length=20))
            code = 200
        elif mode == 'build':
            code = rng.choice([200, 404, 500])
            raw = build_http_response(code, reason=b'X', headers=shared, body=body)
        else:
            from proxy.http.exception import HttpRequestRejected
            code = 403
            raw = bytes(HttpRequestRejected(status_code=403, reason=b'No', headers=shared, body=body).response(None))      # type: ignore[arg-type]
        bad = _consistent(raw, code, body)
        if bad:
            out['bad'].append(('call%d-%s' % (min(k, 1) + 1, bad[0]), {'why': bad[1], 'head': raw[:200]}))
            return


def law_L9(rng: random.Random, out: Dict[str, Any]) -> None:
    """build() with the optional arguments the product's own callers pass (disable_headers, host=... as the reverse proxy
    does).  The result must parse to the same message except for exactly the requested edits; the arguments must not be
    modified; and a plain build() afterwards - of this and of an unrelated message - must be what it was before the call."""
    from proxy.common import constants
    fr = rng.choice(['none', 'cl', 'chunked'])
    body = b'' if fr == 'none' else G.body_bytes(rng, rng.choice([1, 5, 300]))
    m = G.gen_request(rng, target=rng.choice([b'/a/b?c=d', b'http://h.test/a/b?c=d', b'http://h.test:81/']), host_header=b'h.test',
                      framing=fr, body=body)
    other = G.gen_request(rng, target=b'/other', host_header=b'other.test', framing='none', body=b'')
    p = HttpParser.request(m.raw)
    po = HttpParser.request(other.raw)
    out['nontrivial'] = True
    if not p.is_complete or not po.is_complete:
        out['bad'].append(('parse-incomplete', p.state))
        return
    plain_before = p.build()
    other_before = po.build()
    names = [k for k in (p.headers or {}) if k not in (b'host', b'content-length', b'transfer-encoding')]
    use_host = rng.random() < 0.6
    use_disable = rng.random() < 0.6
    disabled = [rng.choice(names)] if (use_disable and names) else ([] if use_disable else None)
    arg = list(disabled) if disabled is not None else None
    new_host = b'up-%d.test:8%d' % (rng.randint(0, 99), rng.randint(0, 99))
    default_before = list(constants.DEFAULT_DISABLE_HEADERS)
    out['cls'] = 'host=%s,disable=%s' % ('y' if use_host else 'n', 'none' if disabled is None else len(disabled))
    out['input'] = {'message': m.raw[:300], 'host': new_host if use_host else None, 'disable_headers': disabled}
    z = p.build(disable_headers=arg, host=new_host if use_host else None)
    q = HttpParser.request(z)
    want = hmap(p.headers)
    for d in (disabled or []):
        want.pop(d, None)
    if use_host:
        want[b'host'] = new_host
    if not (q.is_complete and q.method == p.method and q.path == p.path and q.version == p.version and (q.body or b'') == (p.body or b'')):
        out['bad'].append(('edited-rebuild-differs-beyond-the-edit', {'z': z[:300]}))
    elif hmap(q.headers) != want:
        got = hmap(q.headers)
        out['bad'].append(('edited-rebuild-headers', {k.decode('latin-1'): (want.get(k), got.get(k)) for k in set(want) | set(got) if want.get(k) != got.get(k)}))
    msgs, err, left = h11util.parse_requests(z)
    if err or len(msgs) != 1 or not msgs[0]['complete'] or left:
        out['bad'].append(('edited-rebuild-h11-rejects', err or 'msgs=%d left=%d' % (len(msgs), len(left))))
    if arg is not None and arg != disabled:
        out['bad'].append(('caller-disable-headers-list-modified', {'before': disabled, 'after': arg}))
    if list(constants.DEFAULT_DISABLE_HEADERS) != default_before:
        out['bad'].append(('shared-default-disable-headers-modified', {'before': default_before, 'after': list(constants.DEFAULT_DISABLE_HEADERS)}))
        del constants.DEFAULT_DISABLE_HEADERS[:]
        constants.DEFAULT_DISABLE_HEADERS.extend(default_before)     # undo, so later cases in this process start clean
    if p.build() != plain_before:
        out['bad'].append(('plain-build-changed-after-edited-build', {'before': plain_before[:200], 'after': p.build()[:200]}))
    if po.build() != other_before:
        out['bad'].append(('plain-build-of-unrelated-message-changed', {'before': other_before[:200], 'after': po.build()[:200]}))


LAWS = ['L1', 'L2', 'L3', 'L4', 'L5', 'L6', 'L7', 'L8', 'L9']


def run_case(case: Dict[str, Any]) -> Dict[str, Any]:
    rng = random.Random('c15:%s:%s' % (case['seed'], case['i']))
    law = case['law']
    out: Dict[str, Any] = {'bad': [], 'cls': '?', 'nontrivial': False, 'input': None}
    try:
        if law == 'L5':
            law_L5(rng, out, case.get('exh', 40))
        else:
            globals()['law_' + law](rng, out)
    except Exception as e:
        import traceback
        out['bad'].append(('exception:%s' % type(e).__name__, traceback.format_exc()[-800:]))
    viol = []
    seen = set()
    for (what, d) in out['bad']:
        key = '%s|%s|%s' % (law, out['cls'], what)
        if key not in seen:
            seen.add(key)
            viol.append({'key': key, 'detail': {'diff': d, 'input': out['input']}})
    obs = {'law:' + law: 1, 'cls:%s:%s' % (law, out['cls']): 1}
    obs.update(out.get('extra_obs', {}))
    return {'viol': viol, 'nontrivial': out['nontrivial'], 'sig': '%s/%s' % (law, case['i']), 'obs': obs,
            'sets': {'classes': {'%s:%s' % (law, out['cls'])}},
            'sample': {'law': law, 'class': out['cls'], 'input': out['input']}}


def cases(tier: str, seed: int):
    n = 21000 if tier == 'quick' else 210000
    for i in range(n):
        yield {'seed': seed, 'i': i, 'law': LAWS[i % len(LAWS)], 'exh': 40 if tier == 'quick' else 300}


def floors(tier: str) -> Dict[str, int]:
    fl = {'distinct:classes': 38, 'L5_chunk_sizes': 2000}
    for l in LAWS:
        fl['law:' + l] = 300
    return fl


if __name__ == '__main__':
    raise SystemExit(driver.main(__import__('checks.c15', fromlist=['x'])))

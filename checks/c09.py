"""C09 — proxy plugins run in configured order with the documented chaining semantics.

Step rig with 1..3 generated recording plugins (classes P1..P3 configured in a chosen order).  A behaviour
table tells each plugin what to do at each hook: pass, modify (leave a unique marker in place), replace (return a new request object carrying a marker), drop (return None) or
reject (raise HttpRequestRejected with a chosen status and body).  Every hook call appends
(plugin, hook, fingerprint of the argument, behaviour, fingerprint of the result) to a shared log.
An executable model of the documented semantics is then checked against: the call log, the connects the
audit hook saw, what the origin read, what the client read.
"""
import random
import itertools
from typing import Any, Dict, List, Optional, Tuple

from rig import env, driver, shim, audit, monitors, h11util, conv

env.quiet_logging()

from rig.steprig import StepRig, make_flags, LoopDied      # noqa: E402

from proxy.http.parser import HttpParser                    # noqa: E402
from proxy.http.proxy import HttpProxyBasePlugin            # noqa: E402
from proxy.http.exception import HttpRequestRejected        # noqa: E402
from proxy.http.responses import okResponse                 # noqa: E402

PROPERTY = 'C09'
LEVEL = 'exploration'
LEVEL_TEXT = ('Exploration with an exhaustive sub-space: for every plugin list of 1..3 recording plugins (all orders) and '
              'every assignment of ONE non-pass behaviour {modify, replace, drop, reject} to ONE plugin at ONE hook '
              '{before_upstream_connection, handle_client_request (first / follow-up request), handle_upstream_chunk, '
              'on_access_log} - plus the all-pass assignment - a connection is run to each ending {client closes after the '
              'response, client closes / resets early, origin closes / resets mid-response, rejection}; random '
              'multi-behaviour assignments beyond. The call log, audit connects, origin and client transcripts are '
              'judged by an executable model of the documented chain semantics.')
LEVEL_NOTE = ('Trusted: the model in this file (written from proxy/http/proxy/plugin.py docstrings and the property text). '
              'Where the documentation is silent (whether handle_client_request still runs after a plugin declined the '
              'upstream connection) nothing is demanded. A rejection raised in handle_client_request is required to keep '
              'request bytes from the origin, not to prevent the TCP connect the API has already made at that point.')
TECHNIQUE = 'runtime monitoring: plugin-hook call log + audit hook + boundary transcripts vs an executable model of the plugin-chain semantics'
RULE = ('case = (plugin order, behaviour table, follow-up requests, ending); non-trivial = some plugin does something other '
        'than pass, or the connection ends abnormally; distinct = order x table x ending')
ASSUMPTIONS = ['plugins have distinct names', 'a plugin that drops a follow-up request queues its own response for it',
               'a plugin that returns a new request object carries the connection\'s PROXY-protocol attribute over to it']
SHARDS = {'quick': 8, 'thorough': 16}
BUDGET_S = {'quick': 45, 'thorough': 800}
EXHAUSTIVE = {'quick': ['single non-pass behaviour x hook x position x plugin lists of 1..3 (all orders) x endings {normal, client-close}'],
              'thorough': ['single non-pass behaviour x hook x position x plugin lists of 1..3 (all orders) x all endings']}

LOG: List[Tuple[Any, ...]] = []
TABLE: Dict[Tuple[int, str], Tuple[str, int]] = {}      # (plugin idx, hook) -> (behaviour, apply on n-th call of that hook; 0 = always)
MARK = [b'q', b'w', b'e']
REJECT: Dict[str, int] = {'pad': 0}       # rejection bodies are padded to this many bytes (output larger than one flush)


def _markers(req: Optional[HttpParser]) -> Tuple[str, ...]:
    if req is None:
        return ('<none>',)
    out = []
    for k, (_, v) in (req.headers or {}).items():
        if k.startswith(b'x-p'):
            out.append('%s=%s' % (k.decode(), v.decode()))
    rid = req.header(b'x-req-id').decode() if req.has_header(b'x-req-id') else '?'
    return tuple([rid] + sorted(out))


class _Rec(HttpProxyBasePlugin):
    IDX = 0

    def __init__(self, *a: Any, **k: Any) -> None:
        super().__init__(*a, **k)
        self.n: Dict[str, int] = {}
        LOG.append((self.IDX, 'init', None, 'pass', None))

    def _beh(self, hook: str) -> str:
        self.n[hook] = self.n.get(hook, 0) + 1
        b = TABLE.get((self.IDX, hook))
        if b is None:
            return 'pass'
        if b[1] and b[1] != self.n[hook]:
            return 'pass'
        return b[0]

    def resolve_dns(self, host: str, port: int) -> Tuple[Optional[str], Optional[Any]]:
        b = TABLE.get((self.IDX, 'resolve_dns'))
        if b is not None and b[0] == 'answer':
            LOG.append((self.IDX, 'resolve_dns', (host, port), 'answer', RESOLVE_IPS[self.IDX]))
            return RESOLVE_IPS[self.IDX], None
        LOG.append((self.IDX, 'resolve_dns', (host, port), 'pass', None))
        return None, None

    def _request_hook(self, hook: str, request: HttpParser) -> Optional[HttpParser]:
        b = self._beh(hook)
        arg = _markers(request)
        if b == 'modify':
            request.add_header(b'X-P%d-%s%d' % (self.IDX, hook[:1].encode(), self.n[hook]), b'1')
        elif b == 'replace':
            # "Return optionally modified request object": a plugin may hand back a different object altogether
            old_protocol = request.protocol
            request = HttpParser.request(request.build(for_proxy=True))
            request.protocol = old_protocol     # the PROXY-protocol line belongs to the connection, not to the request text
            request.add_header(b'X-P%d-%s%d' % (self.IDX, hook[:1].encode(), self.n[hook]), b'1')
        ret: Optional[HttpParser] = request
        if b == 'drop':
            ret = None
            if hook == 'handle_client_request' and self.n[hook] > 1:
                # documented use: "Return None to drop the request data, e.g. in case a response has already been queued"
                self.client.queue(okResponse(content=b'DROPPED-BY-P%d|%s|' % (self.IDX, arg[0].encode()), compress=False))
        LOG.append((self.IDX, hook, arg, b, _markers(ret) if ret is not None else None))
        if b == 'reject':
            raise HttpRequestRejected(status_code=470 + self.IDX, reason=b'Rejected by P%d' % self.IDX,
                                      headers={b'X-Rejected-By': b'P%d' % self.IDX},
                                      body=(b'rejected-by-P%d-at-%s' % (self.IDX, hook.encode())).ljust(REJECT['pad'], b'.'))
        return ret

    def before_upstream_connection(self, request: HttpParser) -> Optional[HttpParser]:
        return self._request_hook('before_upstream_connection', request)

    def handle_client_request(self, request: HttpParser) -> Optional[HttpParser]:
        return self._request_hook('handle_client_request', request)

    def handle_client_data(self, raw: memoryview) -> Optional[memoryview]:
        b = self._beh('handle_client_data') if (self.IDX, 'handle_client_data') in TABLE else 'pass'
        ret: Optional[memoryview] = raw
        if b == 'strip':
            # "Return optionally modified client data": this plugin consumes its own one-byte marker, which may be all there is
            ret = raw[1:] if bytes(raw[:1]) == b'%d' % self.IDX else raw
        elif b == 'drop':
            ret = None
        LOG.append((self.IDX, 'handle_client_data', bytes(raw[:20]), b, bytes(ret[:20]) if ret is not None and b != 'pass' else None))
        return ret

    def handle_upstream_chunk(self, chunk: memoryview) -> Optional[memoryview]:
        b = self._beh('handle_upstream_chunk')
        arg = bytes(chunk)
        ret: Optional[bytes] = arg
        if b == 'modify':
            ret = arg.replace(MARK[self.IDX], MARK[self.IDX].upper())
        elif b == 'drop':
            ret = None
        LOG.append((self.IDX, 'handle_upstream_chunk', arg, b, ret))
        return memoryview(ret) if ret is not None else None

    def on_upstream_connection_close(self) -> None:
        LOG.append((self.IDX, 'on_upstream_connection_close', None, 'pass', None))

    def on_access_log(self, context: Dict[str, Any]) -> Optional[Dict[str, Any]]:
        b = self._beh('on_access_log')
        arg = tuple(sorted(k for k in context if k.startswith('p')))
        if b == 'modify':
            context = dict(context)
            context['p%d' % self.IDX] = 1
        ret = None if b == 'drop' else context
        LOG.append((self.IDX, 'on_access_log', arg, b, tuple(sorted(k for k in ret if k.startswith('p'))) if ret is not None else None))
        return ret


class P0(_Rec):
    IDX = 0


class P1(_Rec):
    IDX = 1


class P2(_Rec):
    IDX = 2


CLASSES = [P0, P1, P2]
REQ_HOOKS = ('before_upstream_connection', 'handle_client_request')


PP_LINES = {'TCP4': b'PROXY TCP4 192.0.2.7 198.51.100.9 50123 8899\r\n', 'TCP6': b'PROXY TCP6 2001:db8::7 2001:db8::9 50123 8899\r\n',
            'UNKNOWN': b'PROXY UNKNOWN\r\n'}


def flags_for(order: List[int], pp: bool = False) -> Any:
    return make_flags(['--enable-proxy-protocol'] if pp else [], plugins=[CLASSES[i] for i in order],
                      cache_key='c09:%s:%s' % (''.join(map(str, order)), pp))


AUTH_NAME = b'proxy.http.proxy.auth.AuthPlugin'
RESOLVE_IPS: Dict[int, str] = {}


def run_resolve_chain(case: Dict[str, Any]) -> Dict[str, Any]:
    """resolve_dns is a chain hook like the others: plugins are asked in configured order and the first one that names an address
    decides where the upstream connection goes - whatever plugins configured after it would have said."""
    rng = random.Random('c09r:%s:%s' % (case['seed'], case['i']))
    order: List[int] = case['order']
    answering: List[int] = case['answering']
    TABLE.clear()
    for idx in answering:
        TABLE[(idx, 'resolve_dns')] = ('answer', 0)
    del LOG[:]
    shim.S.reset()
    flags = flags_for(order)
    rig = StepRig(flags, case.get('mode', 'local'))
    viol: List[Dict[str, Any]] = []
    obs: Dict[str, int] = {'resolve_chain_cases': 1}
    feat = 'resolve_dns|%d-of-%d-answer' % (len(answering), len(order))
    try:
        named = rig.add_origin('127.0.%d.%d' % (rng.randint(0, 250), rng.randint(2, 250)))
        origins = {'named': named}
        RESOLVE_IPS.clear()
        for idx in answering:
            ip = '127.9.%d.%d' % (rng.randint(0, 250), 10 + idx)
            RESOLVE_IPS[idx] = ip
            origins['P%d' % idx] = rig.add_origin(ip, named.port)      # same port, the address the plugin names
        alog = audit.start()
        c = rig.add_client('unix')
        connect = case.get('method') == 'CONNECT'
        hp = named.hostport
        c.send((b'CONNECT %s HTTP/1.1\r\nHost: %s\r\n\r\n' % (hp, hp)) if connect else (b'GET http://%s/r HTTP/1.1\r\nHost: %s\r\n\r\n' % (hp, hp)))
        got: Dict[str, Any] = {}

        def reached() -> bool:
            for name, o in origins.items():
                p = o.accept()
                if p is not None:
                    got[name] = p
            return bool(got) or c.ended
        rig.until(reached, [c], idle_timeout=0.4)
        rig.settle([c], quiet=4)
        reached()
        audit.stop()
        first = next((idx for idx in order if idx in answering), None)
        want = 'named' if first is None else 'P%d' % first
        if sorted(got) != [want]:
            viol.append({'key': feat + '|upstream-connection-not-where-the-first-answering-plugin-said',
                         'detail': {'order': order, 'answering': answering, 'reached': sorted(got), 'want': want,
                                    'connects': [str(a) for (ev, a) in alog if ev == 'socket.connect'][:4],
                                    'log': [e for e in LOG if e[1] == 'resolve_dns']}})
        else:
            obs['resolve_chain_checked'] = 1
    except LoopDied as e:
        viol.append({'key': feat + '|loop-died:%s' % e.where(), 'detail': {'tb': e.tb[-1000:]}})
    finally:
        audit.stop()
        rig.close()
        TABLE.clear()
    return {'viol': viol, 'nontrivial': True, 'sig': 'resolve/%s/%s/%s' % (order, answering, case.get('method')), 'obs': obs, 'sample': {'case': case}}


def run_auth_order(case: Dict[str, Any]) -> Dict[str, Any]:
    """--basic-auth next to user plugins, the authentication plugin's own name listed nowhere / first / in the middle / last of
    the configured plugins: it is consulted ahead of every user plugin all the same.  Judged at the loaded plugin table, and on
    the wire: an anonymous request gets 407 and no user plugin hook sees it; an authenticated one runs the chain in order."""
    rng = random.Random('c09a:%s:%s' % (case['seed'], case['i']))
    order: List[int] = case['order']
    pos = case['auth_at']
    plugins: List[Any] = [CLASSES[i] for i in order]
    if pos is not None:
        plugins.insert(min(pos, len(plugins)), AUTH_NAME if case.get('as_name', True) else __import__('proxy.http.proxy.auth', fromlist=['AuthPlugin']).AuthPlugin)
    TABLE.clear()
    del LOG[:]
    shim.S.reset()
    flags = make_flags(['--basic-auth', 'user:pass'], plugins=plugins, cache_key='c09a:%s:%s:%s' % (order, pos, case.get('as_name', True)))
    viol: List[Dict[str, Any]] = []
    obs: Dict[str, int] = {'auth_order_cases': 1}
    feat = 'auth-order|listed-%s' % ('nowhere' if pos is None else ('first' if pos == 0 else ('last' if pos >= len(order) else 'middle')))
    loaded = [k.__name__ for k in flags.plugins[b'HttpProxyBasePlugin']]
    want = ['AuthPlugin'] + ['P%d' % i for i in order]
    if loaded != want:
        viol.append({'key': feat + '|loaded-plugin-order', 'detail': {'loaded': loaded, 'want': want}})
    rig = StepRig(flags, case.get('mode', 'local'))
    try:
        origin = rig.add_origin('127.0.%d.%d' % (rng.randint(0, 250), rng.randint(2, 250)))
        hp = origin.hostport
        alog = audit.start()
        c = rig.add_client('unix')
        c.send(b'GET http://%s/anon HTTP/1.1\r\nHost: %s\r\nX-Req-Id: anon\r\n\r\n' % (hp, hp))
        rig.until(lambda: c.ended or b'\r\n\r\n' in c.rx, [c], idle_timeout=0.4)
        rig.settle([c], quiet=4)
        audit.stop()
        hooks = [(e[0], e[1]) for e in LOG if e[1] in REQ_HOOKS]
        connects = [a for (ev, a) in alog if ev == 'socket.connect']
        if not bytes(c.rx).startswith(b'HTTP/1.1 407'):
            viol.append({'key': feat + '|anonymous-request-not-answered-407', 'detail': {'got': bytes(c.rx[:120]), 'hooks': hooks}})
        if hooks:
            viol.append({'key': feat + '|user-plugin-consulted-before-authentication', 'detail': {'hooks': hooks, 'loaded': loaded}})
        if connects or origin.accept() is not None:
            viol.append({'key': feat + '|anonymous-request-contacted-upstream', 'detail': {'connects': [str(x) for x in connects]}})
        del LOG[:]
        c2 = rig.add_client('unix')
        c2.send(b'GET http://%s/ok HTTP/1.1\r\nHost: %s\r\nX-Req-Id: ok\r\nProxy-Authorization: Basic dXNlcjpwYXNz\r\n\r\n' % (hp, hp))
        box: Dict[str, Any] = {}

        def acc() -> bool:
            if 'oc' not in box:
                p = origin.accept()
                if p is not None:
                    box['oc'] = p
            if 'oc' in box:
                box['oc'].pump()
                return b'\r\n\r\n' in box['oc'].rx
            return c2.ended
        rig.until(acc, [c2], idle_timeout=0.4)
        seq = [e[0] for e in LOG if e[1] == 'before_upstream_connection']
        if 'oc' not in box:
            viol.append({'key': feat + '|authenticated-request-not-forwarded', 'detail': {'client': bytes(c2.rx[:120])}})
        elif seq != list(order):
            viol.append({'key': feat + '|user-plugins-not-in-configured-order', 'detail': {'called': seq, 'configured': order}})
        else:
            obs['auth_order_checked'] = 1
    except LoopDied as e:
        viol.append({'key': feat + '|loop-died:%s' % e.where(), 'detail': {'tb': e.tb[-1000:]}})
    finally:
        audit.stop()
        rig.close()
    return {'viol': viol, 'nontrivial': True, 'sig': 'auth/%s/%s/%s' % (order, pos, case.get('as_name', True)), 'obs': obs,
            'sample': {'case': case, 'loaded': loaded}}


def run_connect_drop(case: Dict[str, Any]) -> Dict[str, Any]:
    """A plugin that returns 'no request' for the first request suppresses what the proxy would have done with it - for a CONNECT
    that is the tunnel acknowledgement: a client must not be told '200 Connection established' for a request a plugin dropped,
    and the plugins configured after the dropping one are not asked."""
    rng = random.Random('c09d:%s:%s' % (case['seed'], case['i']))
    order: List[int] = case['order']
    who, hook = case['who'], case['hook']
    TABLE.clear()
    TABLE[(who, hook)] = ('drop', 0)
    del LOG[:]
    shim.S.reset()
    flags = flags_for(order)
    rig = StepRig(flags, case.get('mode', 'local'))
    viol: List[Dict[str, Any]] = []
    obs: Dict[str, int] = {'connect_drop_cases': 1}
    feat = '%s|connect-dropped-by-plugin' % hook
    try:
        origin = rig.add_origin('127.0.%d.%d' % (rng.randint(0, 250), rng.randint(2, 250)))
        hp = origin.hostport
        c = rig.add_client('unix')
        c.send(b'CONNECT %s HTTP/1.1\r\nHost: %s\r\n\r\n' % (hp, hp))
        rig.until(lambda: c.ended or b'\r\n\r\n' in c.rx, [c], idle_timeout=0.4)
        rig.settle([c], quiet=6)
        detail = {'order': order, 'who': who, 'hook': hook, 'client': bytes(c.rx[:120]), 'log': [(e[0], e[1], e[3]) for e in LOG][:20]}
        if b'Connection established' in c.rx:
            viol.append({'key': feat + '|tunnel-acknowledged-all-the-same', 'detail': detail})
        later = [e[0] for e in LOG if e[1] == hook and order.index(e[0]) > order.index(who)]
        if later:
            viol.append({'key': feat + '|later-plugins-still-asked', 'detail': detail})
        if not viol:
            obs['connect_drop_checked'] = 1
    except LoopDied as e:
        viol.append({'key': feat + '|loop-died:%s' % e.where(), 'detail': {'tb': e.tb[-1000:]}})
    finally:
        rig.close()
    return {'viol': viol, 'nontrivial': True, 'sig': 'cdrop/%s/%s/%s' % (order, who, hook), 'obs': obs, 'sample': {'case': case}}


def run_client_data_chain(case: Dict[str, Any]) -> Dict[str, Any]:
    """handle_client_data is a hook of the plugin interface like the others: once a plugin has suppressed the upstream
    connection, every later read from the client is offered to the plugins in configured order, each receiving what the previous
    one returned; only None ends the chain - an EMPTY result (a plugin that consumed all there was) is data, not 'no data'."""
    rng = random.Random('c09cd:%s:%s' % (case['seed'], case['i']))
    order: List[int] = case['order']
    TABLE.clear()
    TABLE[(order[0], 'before_upstream_connection')] = ('drop', 0)
    for idx, beh in case['behaviours'].items():
        TABLE[(int(idx), 'handle_client_data')] = (beh, 0)
    del LOG[:]
    shim.S.reset()
    flags = flags_for(order)
    rig = StepRig(flags, case.get('mode', 'local'))
    viol: List[Dict[str, Any]] = []
    obs: Dict[str, int] = {'client_data_chain_cases': 1}
    feat = 'handle_client_data|chain'
    try:
        origin = rig.add_origin('127.0.%d.%d' % (rng.randint(0, 250), rng.randint(2, 250)))
        hp = origin.hostport
        c = rig.add_client('unix')
        c.send(b'GET http://%s/cd HTTP/1.1\r\nHost: %s\r\nX-Req-Id: cd\r\n\r\n' % (hp, hp))
        rig.until(lambda: any(e[1] == 'handle_client_request' for e in LOG) or c.ended, [c], idle_timeout=0.4)
        rig.settle([c], quiet=6)
        expected: List[Tuple[int, bytes]] = []
        got: List[Tuple[int, bytes]] = []
        for piece in case['pieces']:
            pb = piece.encode()
            mark = len(LOG)
            if c.ended:
                break
            c.send(pb)
            rig.until(lambda: len(LOG) > mark or c.ended, [c], idle_timeout=0.4)
            rig.settle([c], quiet=6)
            data: Optional[bytes] = pb
            for p_ in order:
                assert data is not None
                expected.append((p_, data[:20]))
                beh = case['behaviours'].get(str(p_), 'pass')
                if beh == 'drop':
                    data = None
                    break
                if beh == 'strip' and data[:1] == b'%d' % p_:
                    data = data[1:]
            got = [(e[0], e[2]) for e in LOG[:] if e[1] == 'handle_client_data']
        first = [e for e in LOG if e[1] == 'handle_client_data']
        # calls made with the request bytes themselves (if any) are not part of this chain
        got = [(e[0], e[2]) for e in first if not e[2].startswith(b'GET http://')]
        detail = {'order': order, 'behaviours': case['behaviours'], 'pieces': case['pieces'], 'expected': expected[:12], 'got': got[:12], 'ended': c.ended}
        if got != expected:
            short = len(got) < len(expected) and got == expected[:len(got)]
            viol.append({'key': feat + ('|later-plugin-not-offered-the-data' if short else '|calls-differ'), 'detail': detail})
        else:
            obs['client_data_chain_checked'] = 1
            obs['client_data_calls_checked'] = len(got)
            if any(d == b'' for _p, d in got):
                obs['client_data_empty_results_passed_on'] = 1
    except LoopDied as e:
        viol.append({'key': feat + '|loop-died:%s' % e.where(), 'detail': {'tb': e.tb[-1000:]}})
    finally:
        rig.close()
    return {'viol': viol, 'nontrivial': True, 'sig': 'cdchain/%s/%s/%s' % (order, sorted(case['behaviours'].items()), case['pieces']), 'obs': obs,
            'sample': {'case': case}}


def run_case(case: Dict[str, Any]) -> Dict[str, Any]:
    if case.get('kind') == 'connect-drop':
        return run_connect_drop(case)
    if case.get('kind') == 'client-data-chain':
        return run_client_data_chain(case)
    if case.get('kind') == 'auth-order':
        return run_auth_order(case)
    if case.get('kind') == 'resolve-chain':
        return run_resolve_chain(case)
    rng = random.Random('c09:%s:%s' % (case['seed'], case['i']))
    order: List[int] = case['order']
    table = {(int(k.split(':')[0]), k.split(':')[1]): (v[0], v[1]) for k, v in case['table'].items()}
    TABLE.clear()
    TABLE.update(table)
    REJECT['pad'] = case.get('reject_pad', 0)
    del LOG[:]
    shim.S.reset()
    flags = flags_for(order, bool(case.get('pp')))
    rig = StepRig(flags, case.get('mode', 'local'))
    viol: List[Dict[str, Any]] = []
    obs: Dict[str, int] = {}
    ending = case['ending']
    tdesc = ','.join('%s=%s%s' % (k.split(':')[1][:8], v[0], '@%d' % v[1] if v[1] else '') for k, v in sorted(case['table'].items())) or 'all-pass'
    nfollow = case.get('followups', 0)

    def bad(kind: str, **d: Any) -> None:
        d.update({'order': order, 'table': case['table'], 'ending': ending, 'log': [(e[0], e[1], e[3]) for e in LOG][:40]})
        viol.append({'key': kind, 'detail': d})
    try:
        origin = rig.add_origin('127.0.%d.%d' % (rng.randint(0, 250), rng.randint(2, 250)))
        body_by_rid: Dict[str, bytes] = {}

        def responder(req: Dict[str, Any], name: str) -> List[bytes]:
            rid = req['hd'].get(b'x-req-id', b'?').decode('latin-1')
            body = b'O|%s|the quick brown fox jumps over the lazy dog qwe qwe' % rid.encode()
            if rid == 'r0' and case.get('stalled_reader'):
                body += b' qwe' * (case['stalled_reader'] // 4)      # far more than one flush: stays queued while the client does not read
            body_by_rid[rid] = body
            raw = b'HTTP/1.1 200 OK\r\nContent-Length: %d\r\nX-Req-Id: %s\r\n\r\n' % (len(body), rid.encode()) + body
            return conv.cut_bytes(rng, raw, case.get('resp_cuts', 0))
        ao = conv.AutoOrigin(origin, 'O', responder)
        hp = origin.hostport
        alog = audit.start()
        client = rig.add_client(case.get('transport', 'tcp' if 'reset' in ending else 'unix'))

        def request(rid: str) -> bytes:
            return b'GET http://%s/%s HTTP/1.1\r\nHost: %s\r\nX-Req-Id: %s\r\n\r\n' % (hp, rid.encode(), hp, rid.encode())

        def pump_all() -> None:
            ao.tick()
            for c in ao.conns:
                c.send_some()

        def n_responses() -> int:
            if case.get('stalled_reader') and len(client.rx) < case['stalled_reader']:
                return 0        # (do not re-parse megabytes on every iteration)
            ms, _, _ = h11util.parse_responses(bytes(client.rx), [b'GET'] * 8, eof=False)
            return sum(1 for m in ms if m['complete'])

        def wait(pred: Any) -> bool:
            def p() -> bool:
                pump_all()
                return bool(pred())
            return rig.until(p, [client], idle_timeout=case.get('grace', 0.3))
        # ---- first request (behind a load balancer's PROXY protocol line when that option is on) ----
        r0 = PP_LINES.get(case.get('pp') or '', b'') + request('r0')
        if case.get('pp'):
            obs['proxy_protocol:' + case['pp']] = 1
        if ending == 'client-close-mid-request':
            client.send(r0[:len(r0) // 2])
            rig.settle([client], quiet=4)
            client.close()
        elif ending == 'client-reset-mid-request':
            client.send(r0[:len(r0) // 2])
            rig.settle([client], quiet=4)
            client.reset_close()
        else:
            client.send(r0)
            if ending in ('origin-close-mid-response', 'origin-reset-mid-response'):
                # the origin reads the request, sends half a response and goes away
                def got_req() -> bool:
                    ao.tick(answer=False)
                    return bool(ao.all_requests()) or client.ended
                rig.until(got_req, [client], idle_timeout=0.3)
                for c in ao.conns:
                    c.peer.send(b'HTTP/1.1 200 OK\r\nContent-Length: 1000\r\n\r\npartial qwe')
                    rig.settle([client], quiet=3)
                    if ending == 'origin-reset-mid-response':
                        c.peer.reset_close()
                    else:
                        c.peer.close()
                wait(lambda: client.ended)
                if not client.ended:
                    client.close()      # e.g. a plugin declined the upstream connection: nothing for the origin to abort
            elif case.get('stalled_reader'):
                # the client does not read: the first answer piles up inside the proxy; the follow-ups arrive meanwhile (pipelined
                # behind output that is still pending) and only then does the client start reading
                def piled_up() -> bool:
                    # the origin has written its whole answer AND the proxy has taken all of it in (nothing left in the upstream
                    # socket): no answer is outstanding upstream when the follow-up arrives
                    import fcntl, termios, struct
                    pump_all()
                    if not (ao.all_requests() and all(not c.out for c in ao.conns) and any(monitors.client_buffer_depth(w) > 0 for w in rig.work_objs())):
                        return False
                    for w in rig.work_objs():
                        up = getattr(w.plugin, 'upstream', None)
                        if up is None or up.closed:
                            return False
                        if struct.unpack('i', fcntl.ioctl(up.connection.fileno(), termios.FIONREAD, b'\0\0\0\0'))[0] > 0:
                            return False
                    held = sum(len(bytes(b)) for w in rig.work_objs() for b in w.work.buffer)
                    return held + len(client.rx) + 200000 >= case['stalled_reader'] or held > 0 and all(c.peer.tx >= case['stalled_reader'] for c in ao.conns)
                rig.until(piled_up, [], idle_timeout=0.5)
                obs['followups_sent_behind_pending_output'] = 1 if any(monitors.client_buffer_depth(w) > 0 for w in rig.work_objs()) else 0
                for k in range(nfollow):
                    client.send(request('f%d' % k))
                    rig.step(rng.randint(1, 4))
                    pump_all()
                wait(lambda: n_responses() >= 1 + nfollow or client.ended)
                if not client.ended:
                    client.close()
            else:
                wait(lambda: n_responses() >= 1 or client.ended)
                for k in range(nfollow):
                    if client.ended:
                        break
                    client.send(request('f%d' % k))
                    wait(lambda: n_responses() >= k + 2 or client.ended)
                if ending == 'client-reset-after-response':
                    client.reset_close()
                elif not client.ended:
                    client.close()
        if case.get('stalled_reader'):
            rig.until(lambda: not rig.works, [], idle_timeout=1.0)      # megabytes were in flight: let the proxy finish with the connection
        rig.settle([], quiet=8)
        pump_all()
        log = list(LOG)
        connects = [a for (ev, a) in alog if ev == 'socket.connect']
        origin_reqs = ao.all_requests()
        origin_ids = [r['hd'].get(b'x-req-id', b'?').decode() for r in origin_reqs]
        ms, perr, prest = h11util.parse_responses(bytes(client.rx), [b'GET'] * 8, eof=client.eof)
        first_complete = ending not in ('client-close-mid-request', 'client-reset-mid-request')
        obs['hook_calls'] = len(log)

        # ---------------- model ----------------
        n = len(order)
        # (1) order + short-circuit + chaining of the request hooks, per chain round
        for hook in REQ_HOOKS:
            calls = [e for e in log if e[1] == hook]
            # split into rounds: a round starts whenever the first configured plugin is called
            rounds: List[List[Tuple[Any, ...]]] = []
            for e in calls:
                if e[0] == order[0] or not rounds:
                    rounds.append([])
                rounds[-1].append(e)
            for rnd in rounds:
                seq = [e[0] for e in rnd]
                if seq != order[:len(seq)]:
                    bad('%s|called-out-of-configured-order' % hook, seq=seq)
                    break
                stop = next((j for j, e in enumerate(rnd) if e[3] in ('drop', 'reject')), None)
                if stop is not None and len(rnd) > stop + 1:
                    bad('%s|chain-continued-after-%s' % (hook, rnd[stop][3]), seq=seq)
                    break
                if stop is None and len(rnd) < n and first_complete and 'mid' not in ending:
                    bad('%s|chain-ended-early-without-drop' % hook, seq=seq)
                    break
                for j in range(1, len(rnd)):
                    if rnd[j][2] != rnd[j - 1][4]:
                        bad('%s|plugin-did-not-receive-previous-plugins-result' % hook, got=rnd[j][2], previous_returned=rnd[j - 1][4], position=j)
                        break
                obs['chain_rounds_checked'] = obs.get('chain_rounds_checked', 0) + 1
        buc = [e for e in log if e[1] == 'before_upstream_connection']
        hcr = [e for e in log if e[1] == 'handle_client_request']
        buc_drop = any(e[3] == 'drop' for e in buc)
        buc_reject = next((e for e in buc if e[3] == 'reject'), None)
        hcr_first = []
        for e in hcr:
            if e[2][0] == 'r0':
                hcr_first.append(e)
        hcr_reject = next((e for e in hcr if e[3] == 'reject'), None)
        hcr_drop_first = any(e[3] == 'drop' for e in hcr_first)
        # (2) handle_client_request for the first request receives what the before_upstream_connection chain returned
        if hcr_first and buc and not buc_drop and buc[-1][4] is not None and hcr_first[0][2] != buc[-1][4]:
            bad('handle_client_request|first-plugin-did-not-receive-before_upstream_connection-result', got=hcr_first[0][2], expected=buc[-1][4])
        # (3) declined connection / rejection => upstream not contacted
        if first_complete and (buc_drop or buc_reject):
            if connects or ao.conns:
                bad('before_upstream_connection|upstream-contacted-after-%s' % ('reject' if buc_reject else 'drop'), connects=connects[:2])
        if first_complete and (hcr_reject is not None and hcr_reject[2][0] == 'r0' or hcr_drop_first) and 'r0' in origin_ids:
            bad('handle_client_request|request-forwarded-after-%s' % ('reject' if hcr_reject else 'drop'), origin_ids=origin_ids)
        # (4) a rejection yields exactly the plugin's response, then close
        rej = buc_reject or hcr_reject
        if rej is not None and first_complete:
            idx = rej[0]
            want_body = (b'rejected-by-P%d-at-%s' % (idx, rej[1].encode())).ljust(REJECT['pad'], b'.')
            # the rejection is the last thing the client reads (earlier output may have been altered by chunk hooks)
            stream = bytes(client.rx)
            at = stream.rfind(b'HTTP/1.1 %d ' % (470 + idx))
            tail_ms, tail_err, tail_rest = h11util.parse_responses(stream[at:] if at >= 0 else b'', [b'GET'], eof=client.eof)
            mine = [m for m in tail_ms if m['complete']]
            as_chosen = bool(mine) and mine[0]['body'] == want_body and dict(mine[0]['headers']).get(b'x-rejected-by') == b'P%d' % idx \
                and mine[0]['reason'] == b'Rejected by P%d' % idx and stream.count(b'HTTP/1.1 %d ' % (470 + idx)) == 1
            if as_chosen and not tail_err and not tail_rest and len(mine) > 1 and case.get('stalled_reader') \
                    and all(m['code'] == 200 and dict(m['headers']).get(b'x-req-id', b'').startswith(b'f') for m in mine[1:]):
                # the rejection is as chosen, but answers to EARLIER pipelined requests, still outstanding upstream when the
                # rejection was queued, are relayed after it (see known findings)
                bad('%s|pipelined-rejection-overtakes-outstanding-responses' % rej[1], after=[dict(m['headers']).get(b'x-req-id') for m in mine[1:]])
            elif at < 0 or tail_err or tail_rest or len(mine) != 1 or not as_chosen:
                bad('%s|rejection-response-not-as-chosen' % rej[1], client=bytes(client.rx[-300:]), err=tail_err)
            elif not client.ended:
                bad('%s|connection-open-after-rejection' % rej[1])
            else:
                obs['rejections_checked'] = 1
        # (5) forwarded requests carry the markers of every modifying plugin, in both chains
        for r in origin_reqs:
            rid = r['hd'].get(b'x-req-id', b'?').decode()
            have = sorted(k.decode() for k in r['hd'] if k.startswith(b'x-p'))
            rounds_for = [e for e in log if e[1] in REQ_HOOKS and e[2][0] == rid]
            want = sorted({m.split('=')[0] for e in rounds_for if e[4] for m in e[4][1:]})
            if have != want:
                bad('forwarded-request-lacks-plugin-modifications', rid=rid, have=have, want=want)
            obs['forwarded_requests_checked'] = obs.get('forwarded_requests_checked', 0) + 1
        # follow-up requests: a dropped one is not forwarded, the others are
        for k in range(nfollow):
            rid = 'f%d' % k
            rounds_for = [e for e in hcr if e[2][0] == rid]
            if not rounds_for:
                if first_complete and rej is None and not buc_drop and not hcr_drop_first and ending in ('normal', 'client-reset-after-response') \
                        and not any(e[3] == 'drop' and e[1] == 'handle_upstream_chunk' for e in log):
                    bad('handle_client_request|follow-up-request-never-reached-the-plugins', rid=rid, origin_ids=origin_ids)
                continue
            dropped = any(e[3] == 'drop' for e in rounds_for)
            rejected = any(e[3] == 'reject' for e in rounds_for)
            ncalls_first = sum(1 for e in rounds_for if e[0] == order[0])
            if ncalls_first > 1:
                bad('handle_client_request|chain-run-more-than-once-for-one-request', rid=rid, times=ncalls_first)
            if (dropped or rejected) and rid in origin_ids:
                bad('handle_client_request|follow-up-forwarded-after-%s' % ('drop' if dropped else 'reject'), rid=rid)
            if not dropped and not rejected and rid not in origin_ids and not client.reset:
                bad('handle_client_request|follow-up-not-forwarded-although-no-plugin-dropped-it', rid=rid, origin_ids=origin_ids)
            obs['followups_checked'] = obs.get('followups_checked', 0) + 1
        # (6) handle_upstream_chunk: order, chaining, drop => client never gets it
        chunks = [e for e in log if e[1] == 'handle_upstream_chunk']
        crounds: List[List[Tuple[Any, ...]]] = []
        for e in chunks:
            if e[0] == order[0] or not crounds:
                crounds.append([])
            crounds[-1].append(e)
        expected_client = b''
        for rnd in crounds:
            seq = [e[0] for e in rnd]
            if seq != order[:len(seq)]:
                bad('handle_upstream_chunk|called-out-of-configured-order', seq=seq)
                break
            stop = next((j for j, e in enumerate(rnd) if e[3] == 'drop'), None)
            if stop is not None and len(rnd) > stop + 1:
                bad('handle_upstream_chunk|chain-continued-after-drop', seq=seq)
                break
            if stop is None and len(rnd) < n:
                bad('handle_upstream_chunk|chain-ended-early-without-drop', seq=seq)
                break
            for j in range(1, len(rnd)):
                if rnd[j][2] != rnd[j - 1][4]:
                    bad('handle_upstream_chunk|plugin-did-not-receive-previous-plugins-result', position=j)
                    break
            if stop is None and rnd:
                expected_client += rnd[-1][4]
            obs['chunk_rounds_checked'] = obs.get('chunk_rounds_checked', 0) + 1
        if crounds and not viol and rej is None and not client.reset and ending == 'normal':
            # what the client read of upstream origin = the chain results (canned drop-responses of follow-ups are interleaved
            # by the plugin itself, so compare after removing them)
            got_stream = bytes(client.rx)
            if b'DROPPED-BY-' not in got_stream:
                d = monitors.diff_streams(expected_client, got_stream)
                if d is not None:
                    bad('handle_upstream_chunk|client-stream-differs-from-chain-result', diff=d)
                else:
                    obs['client_stream_vs_chain_checked'] = 1
        # (7) lifecycle callbacks: exactly once per connection whose first request was completely received
        if first_complete and buc:
            closes = [e[0] for e in log if e[1] == 'on_upstream_connection_close']
            if sorted(closes) != sorted(order):
                bad('on_upstream_connection_close|not-exactly-once-per-plugin|%s' % ending, calls=closes)
            al = [e for e in log if e[1] == 'on_access_log']
            heads = [e for e in al if e[0] == order[0]]
            if len(heads) != 1:
                bad('on_access_log|chain-head-not-called-exactly-once|%s' % ending, times=len(heads))
            else:
                seq = [e[0] for e in al]
                stop = next((j for j, e in enumerate(al) if e[3] == 'drop'), None)
                if seq != order[:len(seq)]:
                    bad('on_access_log|called-out-of-configured-order', seq=seq)
                elif stop is not None and len(al) > stop + 1:
                    bad('on_access_log|chain-continued-after-None', seq=seq)
                elif stop is None and len(al) < n:
                    bad('on_access_log|chain-ended-early', seq=seq)
                else:
                    for j in range(1, len(al)):
                        if al[j][2] != al[j - 1][4]:
                            bad('on_access_log|plugin-did-not-receive-previous-plugins-context', position=j)
                            break
                obs['lifecycle_checked'] = 1
        elif not first_complete:
            if any(e[1] in ('on_access_log', 'on_upstream_connection_close') for e in log):
                obs['lifecycle_on_incomplete_request'] = 1      # not constrained by the property
        if texc := [t for t in monitors.task_exceptions]:
            for v in viol:
                v['detail']['task_exceptions'] = sorted({t[0] for t in texc})
    except LoopDied as e:
        viol.append({'key': 'loop-died:%s' % e.where(), 'detail': {'tb': e.tb[-1200:], 'table': case['table'], 'ending': ending}})
    finally:
        audit.stop()
        rig.close()
    obs.update({'ending:' + ending: 1, 'nplugins:%d' % len(order): 1})
    for k, v in case['table'].items():
        obs['beh:%s:%s' % (k.split(':')[1], v[0])] = 1
    nontrivial = bool(case['table']) or ending != 'normal'
    # one violation key per kind
    seen = set()
    uniq = []
    for v in viol:
        if v['key'] not in seen:
            seen.add(v['key'])
            uniq.append(v)
    return {'viol': uniq, 'nontrivial': nontrivial, 'sig': '%s/%s/%s/%d' % (''.join(map(str, order)), tdesc, ending, nfollow),
            'obs': obs, 'sets': {'tables': {tdesc}, 'hook_behaviour_position': {'%s:%s:%d' % (k.split(':')[1], v[0], order.index(int(k.split(':')[0])))
                                                                                   for k, v in case['table'].items() if int(k.split(':')[0]) in order}},
            'sample': {'case': case, 'log': [(e[0], e[1], e[3]) for e in LOG][:30]}}


monitors.watch_task_exceptions()

HOOK_BEH = [('before_upstream_connection', 'modify', 0), ('before_upstream_connection', 'drop', 0), ('before_upstream_connection', 'reject', 0),
            ('before_upstream_connection', 'replace', 0), ('handle_client_request', 'replace', 0), ('handle_client_request', 'replace', 2),
            ('handle_client_request', 'modify', 0), ('handle_client_request', 'drop', 1), ('handle_client_request', 'reject', 1),
            ('handle_client_request', 'drop', 2), ('handle_client_request', 'reject', 2), ('handle_client_request', 'modify', 2),
            ('handle_upstream_chunk', 'modify', 0), ('handle_upstream_chunk', 'drop', 1), ('handle_upstream_chunk', 'drop', 0),
            ('on_access_log', 'modify', 0), ('on_access_log', 'drop', 0)]
ENDINGS_Q = ['normal', 'client-reset-after-response']
ENDINGS_ALL = ['normal', 'client-reset-after-response', 'client-close-mid-request', 'client-reset-mid-request',
               'origin-close-mid-response', 'origin-reset-mid-response']


def cases(tier: str, seed: int):
    rng = random.Random('c09cases:%d' % seed)
    i = 0
    orders: List[List[int]] = []
    for n in (1, 2, 3):
        for perm in itertools.permutations(range(3), n):
            orders.append(list(perm))
    endings = ENDINGS_Q if tier == 'quick' else ENDINGS_ALL
    for order in orders:
        for pos in [None] + list(range(len(order) + 1)):
            for as_name in (True, False):
                i += 1
                yield {'seed': seed, 'i': i, 'kind': 'auth-order', 'order': order, 'auth_at': pos, 'as_name': as_name,
                       'mode': 'local' if i % 3 else 'remote'}
    for order in orders:
        subsets = [[]] + [[x] for x in order] + ([list(order)] if len(order) > 1 else []) + ([[order[0], order[-1]]] if len(order) > 2 else [])
        for ans in subsets:
            i += 1
            yield {'seed': seed, 'i': i, 'kind': 'resolve-chain', 'order': order, 'answering': ans, 'method': ['GET', 'CONNECT'][i % 2], 'mode': 'local' if i % 3 else 'remote'}
    for order in orders:
        for who in order:
            for hook in REQ_HOOKS:
                i += 1
                yield {'seed': seed, 'i': i, 'kind': 'connect-drop', 'order': order, 'who': who, 'hook': hook, 'mode': 'local' if i % 3 else 'remote'}
    for order in orders:
        for bi, behs in enumerate([{}, {str(order[0]): 'strip'}, {str(order[-1]): 'strip'}, {str(x): 'strip' for x in order},
                                   {str(order[0]): 'drop'}, {str(order[0]): 'strip', str(order[-1]): 'drop'}]):
            i += 1
            o0, o1 = order[0], order[-1]
            yield {'seed': seed, 'i': i, 'kind': 'client-data-chain', 'order': order, 'behaviours': behs, 'mode': 'local' if i % 3 else 'remote',
                   'pieces': ['%dhello' % o0, '%d' % o0, 'plain', '%d%d' % (o0, o1), '%d' % o1, '%dtail' % o1][bi % 2:]}
    # follow-ups arriving while the first answer is still queued for a client that does not read
    for order in orders:
        for (hook, beh, nth) in [('handle_client_request', 'reject', 2), ('handle_client_request', 'modify', 2), ('handle_client_request', 'reject', 3)]:
            for pos in range(len(order)):
                if tier == 'quick' and (len(order) + pos + nth) % 2:
                    continue
                i += 1
                yield {'seed': seed, 'i': i, 'order': order, 'table': {'%d:%s' % (order[pos], hook): [beh, nth]}, 'ending': 'normal',
                       'followups': nth - 1,   # nothing is sent behind a request that may get the connection closed; with nth == 3 an earlier
                                               # follow-up's answer is still outstanding upstream when the rejection is queued (known finding)
                       'resp_cuts': 0, 'stalled_reader': [400000, 3000000][i % 2], 'transport': 'tcp'}
    # exhaustive: one non-pass behaviour of one plugin at one hook
    for order in orders:
        for ending in endings:
            i += 1
            yield {'seed': seed, 'i': i, 'order': order, 'table': {}, 'ending': ending, 'followups': 2 if ending == 'normal' else 0,
                   'resp_cuts': rng.choice([0, 2])}
            for pp in ('TCP4', 'TCP6', 'UNKNOWN'):
                i += 1
                yield {'seed': seed, 'i': i, 'order': order, 'table': {}, 'ending': ending, 'followups': 1 if ending == 'normal' else 0,
                       'resp_cuts': 0, 'pp': pp}
        for pos in range(len(order)):
            for (hook, beh, nth) in HOOK_BEH:
                for ending in endings:
                    i += 1
                    yield {'seed': seed, 'i': i, 'order': order, 'table': {'%d:%s' % (order[pos], hook): [beh, nth]}, 'ending': ending,
                           'reject_pad': rng.choice([0, 0, 65400, 65536, 70000, 300000]) if beh == 'reject' else 0,
                           'followups': 3 if hook == 'handle_client_request' and nth == 2 else rng.choice([0, 1, 2]),
                           'resp_cuts': rng.choice([0, 0, 3]), 'mode': rng.choice(['local', 'local', 'remote'])}
    # every abnormal ending with the all-pass and a few single tables (quick tier too)
    for order in orders[::2]:
        for ending in ENDINGS_ALL:
            for tb in ({}, {'%d:handle_client_request' % order[0]: ['modify', 0]}, {'%d:on_access_log' % order[-1]: ['drop', 0]}):
                i += 1
                yield {'seed': seed, 'i': i, 'order': order, 'table': tb, 'ending': ending, 'followups': 0, 'resp_cuts': 1}
    # random multi-behaviour tables
    for _ in range(400 if tier == 'quick' else 10000):
        order = rng.choice(orders)
        tb: Dict[str, List[Any]] = {}
        for _ in range(rng.randint(2, 4)):
            hook, beh, nth = rng.choice(HOOK_BEH)
            tb['%d:%s' % (rng.choice(order), hook)] = [beh, nth]
        i += 1
        yield {'seed': seed, 'i': i, 'order': order, 'table': tb, 'ending': rng.choice(ENDINGS_ALL), 'followups': rng.choice([0, 1, 3]),
               'reject_pad': rng.choice([0, 0, 70000]), 'pp': rng.choice([None, None, None, 'TCP4', 'TCP6', 'UNKNOWN']),
               'transport': 'tcp',
               'resp_cuts': rng.choice([0, 2, 5]), 'mode': rng.choice(['local', 'local', 'remote'])}


def floors(tier: str) -> Dict[str, int]:
    return {'chain_rounds_checked': 2000, 'chunk_rounds_checked': 500, 'lifecycle_checked': 800, 'rejections_checked': 100,
            'forwarded_requests_checked': 500, 'followups_checked': 300, 'distinct:hook_behaviour_position': 30,
            'ending:client-reset-mid-request': 10, 'ending:origin-reset-mid-response': 10, 'client_stream_vs_chain_checked': 100,
            'auth_order_checked': 60, 'proxy_protocol:UNKNOWN': 20, 'proxy_protocol:TCP4': 20, 'followups_sent_behind_pending_output': 15, 'resolve_chain_checked': 30, 'connect_drop_checked': 30, 'client_data_chain_checked': 40, 'client_data_empty_results_passed_on': 15}


if __name__ == '__main__':
    raise SystemExit(driver.main(__import__('checks.c09', fromlist=['x'])))

"""C06 — any input yields service, a well-formed error response, or a clean close.

Step rig, fresh executor per input.  The client peer's transcript is parsed by h11
(client role); the outcome classifier then demands: every emitted byte belongs to a
complete well-framed response; a rejection is followed by end-of-stream and nothing
else; silence with the connection open is only acceptable while h11 (server role)
does not consider the input a complete request and nothing was handed upstream.
Response builders: the builder laws of checks/c15.py (L2, L7, L8) are run here as 'builder' cases.
"""
import re
import random
from typing import Any, Dict, List, Optional, Tuple

from rig import env, driver, shim, audit, h11util, monitors, resolver, refcodec, gen_http as G

env.quiet_logging()

from rig.steprig import StepRig, make_flags, LoopDied      # noqa: E402
from rig.peers import refused_port                           # noqa: E402

PROPERTY = 'C06'
LEVEL = 'exploration'
LEVEL_TEXT = ('Exploration: random byte strings, every truncation and single-byte mutations of valid requests, '
              'concatenations, oversized lines/header counts, bad lengths, foreign protocols and non-UTF-8 bytes in '
              'every field, each under several segmentations, against the real handler in proxy and proxy+web-server '
              'configurations. Decided on the client-side transcript by h11 plus an outcome classifier.')
LEVEL_NOTE = ('Trusted: h11 as judge of response well-formedness; request completeness needs h11 and a strict CRLF-only '
              'RFC 9112 reading (rig/refcodec) to agree, since h11 also accepts bare LF; AF_UNIX delivery is synchronous so '
              'quiescence is decided on loop iterations.')
TECHNIQUE = 'runtime monitoring of the client transcript: h11 response validation + outcome classifier (served / rejected+closed / waiting / closed)'
RULE = ('case = (input class, base request, position/mutation, segmentation, config); non-trivial = the proxy produced '
        'output or closed; distinct = input bytes x segmentation')
ASSUMPTIONS = ['upstream named by valid inputs is a refusing or answering loopback port; other names fail resolution (no DNS)']
SHARDS = {'quick': 8, 'thorough': 16}
BUDGET_S = {'quick': 50, 'thorough': 800}

_FLAGS = {'proxy': [], 'web': ['--enable-web-server']}


def bases(up: bytes) -> Dict[str, bytes]:
    return {
        'get': b'GET http://' + up + b'/x?y=1 HTTP/1.1\r\nHost: ' + up + b'\r\nUser-Agent: t\r\nAccept: */*\r\n\r\n',
        'connect': b'CONNECT ' + up + b' HTTP/1.1\r\nHost: ' + up + b'\r\n\r\n',
        'post': b'POST http://' + up + b'/p HTTP/1.1\r\nHost: ' + up + b'\r\nContent-Length: 11\r\nContent-Type: text/plain\r\n\r\nhello world',
        'chunked': b'PUT http://' + up + b'/c HTTP/1.1\r\nHost: ' + up + b'\r\nTransfer-Encoding: chunked\r\n\r\n5\r\nhello\r\n6\r\n world\r\n0\r\n\r\n',
        'web': b'GET /index.html?q=1 HTTP/1.1\r\nHost: localhost\r\nConnection: keep-alive\r\n\r\n',
        'web10': b'GET / HTTP/1.0\r\n\r\n',
        'head': b'HEAD http://' + up + b'/ HTTP/1.1\r\nHost: ' + up + b'\r\n\r\n',
    }


SPECIALS = [
    b'PRI * HTTP/2.0\r\n\r\nSM\r\n\r\n', b'GET /\r\n', b'GET / HTTP/0.9\r\n\r\n', b'OPTIONS sip:user@example.test SIP/2.0\r\nVia: x\r\n\r\n',
    b'REQMOD icap://icap.test/mod ICAP/1.0\r\nHost: icap.test\r\n\r\n', b'\x16\x03\x01\x02\x00\x01\x00\x01\xfc\x03\x03' + b'\x00' * 40,
    b'GET ftp://h.test/x HTTP/1.1\r\nHost: h.test\r\n\r\n', b'GET gopher://h.test/ HTTP/1.1\r\n\r\n', b'\r\n\r\n', b'\r\n' * 50,
    b' GET / HTTP/1.1\r\n\r\n', b'GET  /  HTTP/1.1\r\n\r\n', b'G\x00T / HTTP/1.1\r\nHost: a\r\n\r\n', b'GET / HTTP/1.1\nHost: a\n\n',
    b'GET http://[::1 HTTP/1.1\r\n\r\n', b'GET http://h.test:99999999999999999999/ HTTP/1.1\r\nHost: h\r\n\r\n',
    b'CONNECT HTTP/1.1\r\n\r\n', b'CONNECT :443 HTTP/1.1\r\n\r\n', b'CONNECT h.test:port HTTP/1.1\r\n\r\n',
    b'POST http://h.test/ HTTP/1.1\r\nHost: h\r\nContent-Length: -1\r\n\r\n', b'POST http://h.test/ HTTP/1.1\r\nHost: h\r\nContent-Length: abc\r\n\r\n',
    b'POST http://h.test/ HTTP/1.1\r\nHost: h\r\nContent-Length: 99999999999999999999999\r\n\r\nxx',
    b'POST http://h.test/ HTTP/1.1\r\nHost: h\r\nContent-Length: 5\r\nContent-Length: 6\r\n\r\nhello',
    b'POST http://h.test/ HTTP/1.1\r\nHost: h\r\nTransfer-Encoding: chunked\r\n\r\nZZ\r\nhello\r\n0\r\n\r\n',
    b'POST http://h.test/ HTTP/1.1\r\nHost: h\r\nTransfer-Encoding: chunked\r\n\r\n-5\r\nhello\r\n0\r\n\r\n',
    b'GET http://h.test/ HTTP/1.1\r\nHost: h\r\n: novalue-name\r\n\r\n', b'GET http://h.test/ HTTP/1.1\r\nNoColonHeader\r\n\r\n',
    b'GET http://h.test/ HTTP/9.9\r\nHost: h\r\n\r\n', b'GET http://h.test/ FTP/1.1\r\nHost: h\r\n\r\n',
    b'get http://h.test/ http/1.1\r\nhost: h\r\n\r\n', b'GET http://user:pa:ss@h.test/ HTTP/1.1\r\nHost: h\r\n\r\n',
    b'GET http://u@v@h.test/ HTTP/1.1\r\nHost: h\r\n\r\n', b'GET //h.test/x HTTP/1.1\r\nHost: h\r\n\r\n', b'GET * HTTP/1.1\r\nHost: h\r\n\r\n',
    b'OPTIONS * HTTP/1.1\r\nHost: h\r\n\r\n', b'GET http:// HTTP/1.1\r\n\r\n', b'GET http:///x HTTP/1.1\r\n\r\n', b'GET :// HTTP/1.1\r\n\r\n',
    b'PROXY TCP4 1.2.3.4 5.6.7.8 1 2\r\nGET / HTTP/1.1\r\n\r\n',
]


def make_input(rng: random.Random, case: Dict[str, Any], up: bytes) -> bytes:
    kind = case['kind']
    B = bases(up)
    if kind == 'valid':
        return B[case['base']]
    if kind == 'trunc':
        b = B[case['base']]
        return b[:case['pos'] % (len(b) + 1)]
    if kind == 'mutate':
        b = bytearray(B[case['base']])
        pos = case['pos'] % len(b)
        b[pos:pos + 1] = bytes.fromhex(case['byte'])
        return bytes(b)
    if kind == 'insert':
        b = bytearray(B[case['base']])
        pos = case['pos'] % (len(b) + 1)
        b[pos:pos] = bytes.fromhex(case['byte'])
        return bytes(b)
    if kind == 'delete':
        b = bytearray(B[case['base']])
        pos = case['pos'] % len(b)
        del b[pos:pos + case.get('n', 1)]
        return bytes(b)
    if kind == 'random':
        n = rng.choice([1, 2, 7, 30, 200, 2000])
        style = rng.random()
        if style < 0.4:
            return bytes(rng.getrandbits(8) for _ in range(n))
        if style < 0.7:
            return bytes(rng.choice(b'GETPOSTCONNECThttp:/ .\r\n:0123456789abcXYZ%[]@?') for _ in range(n))
        return rng.choice([b'GET ', b'POST ', b'CONNECT ']) + bytes(rng.getrandbits(8) for _ in range(n)) + b' HTTP/1.1\r\n\r\n'
    if kind == 'concat':
        names = case['names']
        return b''.join(B[n] for n in names)
    if kind == 'special':
        return SPECIALS[case['idx'] % len(SPECIALS)]
    if kind == 'oversize':
        w = case['what']
        if w == 'long-target':
            return b'GET http://' + up + b'/' + b'a' * 70000 + b' HTTP/1.1\r\nHost: ' + up + b'\r\n\r\n'
        if w == 'long-header':
            return b'GET http://' + up + b'/ HTTP/1.1\r\nHost: ' + up + b'\r\nX-Long: ' + b'v' * 70000 + b'\r\n\r\n'
        if w.startswith('many-headers'):
            n = int(w.split(':')[1]) if ':' in w else 10000
            return b'GET http://' + up + b'/ HTTP/1.1\r\nHost: ' + up + b'\r\n' + b''.join(b'X-H%d: %d\r\n' % (i, i) for i in range(n)) + b'\r\n'
        if w == 'long-method':
            return b'M' * 70000 + b' http://' + up + b'/ HTTP/1.1\r\nHost: ' + up + b'\r\n\r\n'
        if w == 'no-crlf':
            return b'GET http://' + up + b'/' + b'a' * 200000
        return b'\r\n' * 40000
    if kind == 'dup-framing':
        # repeated / conflicting framing header fields, any order and letter case, with fewer, exactly as many and more body bytes
        # than either value announces (request smuggling material: whatever is decided, it must be decided, not spun on)
        vals = [b'0', b'1', b'3', b'5', b'10', b'', b'-1', b'x', b'99999999999999999999', b'+3', b'03']
        names = [b'Content-Length', b'content-length', b'CONTENT-LENGTH', b'Content-length']
        a, b2 = case['a'], case['b']
        hs = [rng.choice(names) + b': ' + vals[a % len(vals)], rng.choice(names) + b': ' + vals[b2 % len(vals)]]
        shape = case['shape']
        if shape == 'te-cl':
            hs[0] = rng.choice([b'Transfer-Encoding', b'transfer-encoding']) + b': chunked'
        elif shape == 'cl-te':
            hs[1] = rng.choice([b'Transfer-Encoding', b'transfer-encoding']) + b': chunked'
        elif shape == 'te-te':
            hs = [b'Transfer-Encoding: ' + rng.choice([b'chunked', b'identity', b'gzip']), b'Transfer-Encoding: ' + rng.choice([b'chunked', b'identity', b'gzip, chunked'])]
        elif shape == 'triple':
            hs.append(rng.choice(names) + b': ' + rng.choice(vals))
        extra = [b'X-Between: 1'] if rng.random() < 0.5 else []
        body = rng.choice([b'', b'X', b'abc', b'hello', b'hello world!', b'5\r\nhello\r\n0\r\n\r\n', b'0\r\n\r\n'])
        tail = b'' if rng.random() < 0.6 else b'GET http://' + up + b'/next HTTP/1.1\r\nHost: ' + up + b'\r\n\r\n'
        first = (b'POST /w HTTP/1.1\r\nHost: w.test' if case.get('cfg') == 'web' else b'POST http://' + up + b'/d HTTP/1.1\r\nHost: ' + up)
        return first + b'\r\n' + hs[0] + b'\r\n' + b''.join(e + b'\r\n' for e in extra) + b'\r\n'.join(hs[1:]) + b'\r\n\r\n' + body + tail
    if kind == 'nonutf8':
        field = case['field']
        bad = rng.choice([b'\xff', b'\xc3\x28', b'\xe2\x82', b'\x80abc', b'\xfe\xfe\xff'])
        if field == 'method':
            return b'G' + bad + b'T http://' + up + b'/ HTTP/1.1\r\nHost: ' + up + b'\r\n\r\n'
        if field == 'host':
            return b'GET http://h' + bad + b'.test/ HTTP/1.1\r\nHost: x\r\n\r\n'
        if field == 'path':
            return b'GET http://' + up + b'/p' + bad + b' HTTP/1.1\r\nHost: ' + up + b'\r\n\r\n'
        if field == 'version':
            return b'GET http://' + up + b'/ HTTP/1.' + bad + b'\r\nHost: ' + up + b'\r\n\r\n'
        if field == 'header-name':
            return b'GET http://' + up + b'/ HTTP/1.1\r\nHost: ' + up + b'\r\nX-' + bad + b': v\r\n\r\n'
        if field == 'header-value':
            return b'GET http://' + up + b'/ HTTP/1.1\r\nHost: ' + up + b'\r\nUser-Agent: ' + bad + b'\r\n\r\n'
        if field == 'connect-host':
            return b'CONNECT h' + bad + b'.test:443 HTTP/1.1\r\n\r\n'
        if field == 'web-path':
            return b'GET /' + bad + b' HTTP/1.1\r\nHost: h\r\n\r\n'
        if field == 'web-ua':
            return b'GET / HTTP/1.1\r\nHost: h\r\nUser-Agent: ' + bad + b'\r\n\r\n'
        return b'POST http://' + up + b'/ HTTP/1.1\r\nHost: ' + up + b'\r\nContent-Length: 3\r\n\r\n' + bad[:1] + b'\xff\xfe'
    raise ValueError(kind)


def strictly_complete(data: bytes, req: Dict[str, Any]) -> bool:
    """RFC 9112 with CRLF-only line endings: is the first request of ``data`` complete?
    (h11 also accepts bare LF; input that is complete only under that leniency may be waited on.)"""
    hdr_end = data.find(b'\r\n\r\n')
    if hdr_end < 0 or re.search(rb'(?<!\r)\n', data[:hdr_end]):
        return False
    body = data[hdr_end + 4:]
    hs = dict(req['headers'])
    if b'chunked' in hs.get(b'transfer-encoding', b'').lower():
        try:
            refcodec.dechunk(body)
        except (refcodec.Incomplete, refcodec.Malformed):
            return False
        return True
    cl = hs.get(b'content-length')
    if cl is not None:
        return cl.isdigit() and len(body) >= int(cl)
    return True


def segment(rng: random.Random, data: bytes, seg: str) -> List[bytes]:
    if seg == 'whole' or len(data) < 2:
        return [data]
    if seg == 'bytes' and len(data) <= 220:
        return [data[i:i + 1] for i in range(len(data))]
    return G.cut_at(data, G.random_cuts(rng, len(data), 2))


def run_builder_case(case: Dict[str, Any]) -> Dict[str, Any]:
    """Response builders (the second half of the property): the laws of checks/c15.py that generate responses
    from builder arguments and judge them with h11 - L2 build_http_response, L7 okResponse / redirects,
    L8 builders with a reused or Content-Length-carrying headers dict."""
    from checks import c15
    r = c15.run_case({'seed': case['seed'], 'i': case['i'], 'law': case['law']})
    for v in r['viol']:
        v['key'] = 'builder|' + v['key']
    r['obs'] = {'kind:builder': 1, 'builder:' + case['law']: 1}
    r['sets'] = {'outcomes': {'builder-ok' if not r['viol'] else 'builder-bad'}}
    r['sig'] = 'builder/' + r['sig']
    return r


def run_rejected_then_more(case: Dict[str, Any]) -> Dict[str, Any]:
    """A conversation the proxy has decided to end (garbage pipelined behind a request whose large answer is still queued for a
    client that does not read) is over: whatever the client sends afterwards - a perfectly valid request included - is not
    served, in particular never forwarded upstream."""
    rng = random.Random('c06r:%s:%s' % (case['seed'], case['i']))
    flags = make_flags(_FLAGS['proxy'], cache_key='c06:proxy')
    shim.S.reset()
    resolver.reset()
    rig = StepRig(flags, case.get('mode', 'local'))
    viol: List[Dict[str, Any]] = []
    obs: Dict[str, int] = {'kind:rejected-then-more': 1}
    outc = 'error'
    try:
        origin = rig.add_origin('127.0.%d.%d' % (rng.randint(0, 250), rng.randint(2, 250)))
        up = origin.hostport
        client = rig.add_client('tcp', rcvbuf=4096)
        client.send(b'GET http://%s/first HTTP/1.1\r\nHost: %s\r\n\r\n' % (up, up))
        box: Dict[str, Any] = {}

        def acc() -> bool:
            p = origin.accept()
            if p is not None:
                box['oc'] = p
            return 'oc' in box
        rig.until(acc, [])
        oc = box['oc']
        rig.until(lambda: b'\r\n\r\n' in oc.rx, [oc])
        body = G.coded(b'R', case['size'])
        data = b'HTTP/1.1 200 OK\r\nContent-Length: %d\r\nX-From-Origin: 1\r\n\r\n' % len(body) + body
        if case.get('mid_response'):
            # the first answer is still on its way from the origin (head and part of the body relayed, the rest not yet sent) when the
            # unparseable follow-up arrives: whatever the proxy does about it, the bytes the client reads are origin bytes, in order
            part = len(data) * 2 // 5
            oc.send(data[:part])
            client2 = client
            rig.until(lambda: len(client2.rx) >= min(part, 300), [client], idle_timeout=0.5)
            client.send(case['garbage'].encode('latin-1'))
            rig.step(rng.randint(2, 10))
            rest = data[part:]
            for _ in range(3000):
                if rest:
                    n = oc.send(rest[:65536])
                    if n > 0:
                        rest = rest[n:]
                    elif n < 0:
                        break
                rig.step()
                client.pump(65536)
                if client.ended or (not rest and len(client.rx) >= len(data)):
                    break
            rig.settle([client], quiet=6)
            got = bytes(client.rx)
            if not monitors.is_prefix(data, got):
                viol.append({'key': 'proxy|rejected-then-more|foreign-bytes-inside-the-response-being-relayed',
                             'detail': {'garbage': case['garbage'], 'diff': monitors.diff_streams(data[:len(got)], got), 'size': case['size']}})
            else:
                obs['mid_response_followups_checked'] = 1
            return {'viol': viol, 'nontrivial': True, 'sig': 'rtm-mid/%s/%d' % (case['garbage'], case['size']), 'obs': dict(obs, **{'outcome:rejected': 1}),
                    'sets': {'outcomes': {'rejected'}}, 'sample': {'case': case}}
        sent = 0
        for _ in range(6000):
            n = oc.send(data[sent:sent + 262144])
            if n > 0:
                sent += n
            rig.step()
            if sent >= len(data):
                break
        first_len = len(oc.rx)
        client.send(case['garbage'].encode('latin-1'))
        rig.step(rng.randint(3, 12))
        client.send(b'GET http://%s/after HTTP/1.1\r\nHost: %s\r\n\r\n' % (up, up))
        for _ in range(200):
            rig.step()
            oc.pump()
            client.pump(65536)
        rig.settle([oc], quiet=6)
        later = bytes(oc.rx[first_len:])
        others = [c for c in origin.conns if c is not oc]
        for c in others:
            c.pump()
        if b'/after' in later or any(b'/after' in bytes(c.rx) for c in others):
            viol.append({'key': 'proxy|rejected-then-more|request-served-after-the-connection-was-rejected',
                         'detail': {'garbage': case['garbage'], 'origin_saw_later': later[:200], 'size': case['size']}})
        else:
            obs['nothing_forwarded_after_rejection'] = 1
        outc = 'rejected'
    except LoopDied as e:
        viol.append({'key': 'proxy|rejected-then-more|loop-died:%s' % e.where(), 'detail': {'tb': e.tb[-900:]}})
        outc = 'loop-died'
    finally:
        rig.close()
    obs['outcome:' + outc] = 1
    return {'viol': viol, 'nontrivial': True, 'sig': 'rtm/%s/%d/%s' % (case['garbage'], case['size'], case.get('mode')), 'obs': obs,
            'sets': {'outcomes': {outc}}, 'sample': {'case': case}}


_WEBR: Dict[str, Any] = {}


def _web_route_plugin() -> Any:
    if 'cls' not in _WEBR:
        from proxy.http.server import HttpWebServerBasePlugin, httpProtocolTypes
        from proxy.http.responses import okResponse

        class KeepRoute(HttpWebServerBasePlugin):
            def routes(self) -> List[Tuple[int, str]]:
                return [(httpProtocolTypes.HTTP, r'/kept/'), (httpProtocolTypes.HTTP, r'/big/')]

            def handle_request(self, request: Any) -> None:
                path = request.path or b''
                if path.startswith(b'/big/'):
                    # one reply of the proxy's own making, queued as ONE packet of the requested size
                    n = int(path.split(b'/')[2])
                    self.client.queue(okResponse(content=own_body(n), compress=False))
                    return
                self.client.queue(okResponse(content=b'kept:' + path, compress=False))
        _WEBR['cls'] = KeepRoute
    return _WEBR['cls']


def own_body(n: int) -> bytes:
    return (b'%07d|' * (n // 8 + 1) % tuple(range(n // 8 + 1)))[:n]


def run_own_reply_large(case: Dict[str, Any]) -> Dict[str, Any]:
    """A response the proxy builds itself (web route, one queued packet) of a size at / around / far beyond the send unit
    (--max-sendbuf-size, 64 KiB by default): what the client reads is a complete response whose body has exactly the
    announced length and the bytes the route produced - never a well-formed head followed by a short body and a close."""
    rng = random.Random('c06o:%s:%s' % (case['seed'], case['i']))
    flags = make_flags(['--enable-web-server'], plugins=[_web_route_plugin()], cache_key='c06:webroute')
    shim.S.reset()
    rig = StepRig(flags, case.get('mode', 'local'))
    viol: List[Dict[str, Any]] = []
    obs: Dict[str, int] = {'kind:own-reply-large': 1}
    outc = 'error'
    n = case['size']
    try:
        client = rig.add_client(case.get('transport', 'unix'), rcvbuf=8192 if case.get('reader') == 'slow' else None)
        client.send(b'GET /big/%d HTTP/1.1\r\nHost: w.test\r\n%s\r\n' % (n, b'Connection: close\r\n' if case.get('close') else b''))

        def done() -> bool:
            ms, _e, _r = h11util.parse_responses(bytes(client.rx), [b'GET'], eof=False)
            return bool(ms) and ms[0]['complete']
        rig.until(lambda: client.ended or done(), [client], idle_timeout=0.6)
        rig.settle([client], quiet=6)
        ms, err, rest = h11util.parse_responses(bytes(client.rx), [b'GET'], eof=client.eof)
        detail = {'size': n, 'received': len(client.rx), 'ended': client.ended, 'err': err, 'head': bytes(client.rx[:160])}
        if err or rest or len(ms) != 1 or not ms[0]['complete']:
            viol.append({'key': 'web|own-reply|partial-or-malformed', 'detail': detail})
        elif ms[0]['code'] != 200 or ms[0]['body'] != own_body(n):
            viol.append({'key': 'web|own-reply|body-differs', 'detail': dict(detail, diff=monitors.diff_streams(own_body(n), ms[0]['body']))})
        else:
            outc = 'served'
            obs['own_replies_checked'] = 1
            if n > 65536:
                obs['own_replies_beyond_send_unit_checked'] = 1
    except LoopDied as e:
        viol.append({'key': 'web|own-reply|loop-died:%s' % e.where(), 'detail': {'tb': e.tb[-900:]}})
    finally:
        rig.close()
    obs['outcome:' + outc] = 1
    return {'viol': viol, 'nontrivial': True, 'sig': 'orl/%s/%s/%s/%s' % (n, case.get('mode'), case.get('transport'), case.get('reader')), 'obs': obs,
            'sets': {'outcomes': {outc}}, 'sample': {'case': case}}


def run_web_followup_rejected(case: Dict[str, Any]) -> Dict[str, Any]:
    """The decision to reject may fall on a FOLLOW-UP request of a kept-alive web connection (a path no route knows, after a
    routed one): the 404 is well-formed, and the connection is closed behind it - a request sent afterwards is never served."""
    rng = random.Random('c06w:%s:%s' % (case['seed'], case['i']))
    flags = make_flags(['--enable-web-server'], plugins=[_web_route_plugin()], cache_key='c06:webroute')
    shim.S.reset()
    rig = StepRig(flags, case.get('mode', 'local'))
    viol: List[Dict[str, Any]] = []
    obs: Dict[str, int] = {'kind:web-followup-rejected': 1}
    outc = 'error'
    try:
        client = rig.add_client(case.get('transport', 'unix'))
        first = b'GET /kept/%d HTTP/1.1\r\nHost: w.test\r\n\r\n' % case['i']
        bad_path = rng.choice([b'/no-such-route', b'/kept', b'/Kept/1', b'/other/kept/', b'/'])
        second = b'GET %s HTTP/1.1\r\nHost: w.test\r\n%s\r\n' % (bad_path, rng.choice([b'', b'Connection: keep-alive\r\n', b'Accept: */*\r\n']))
        third = b'GET /kept/after HTTP/1.1\r\nHost: w.test\r\n\r\n'

        def nresp() -> int:
            ms, _e, _r = h11util.parse_responses(bytes(client.rx), [b'GET'] * 4, eof=False)
            return sum(1 for m in ms if m['complete'])
        if case['packing'] == 'concatenated':
            client.send(first + second)
        else:
            client.send(first)
            rig.until(lambda: nresp() >= 1 or client.ended, [client], idle_timeout=0.4)
            client.send(second)
        rig.until(lambda: nresp() >= 2 or client.ended, [client], idle_timeout=0.4)
        rig.settle([client], quiet=8)
        ms, err, rest = h11util.parse_responses(bytes(client.rx), [b'GET'] * 4, eof=client.eof)
        detail = {'second': second, 'packing': case['packing'], 'client': bytes(client.rx[-200:]), 'ended': client.ended,
                  'codes': [m['code'] for m in ms]}
        if err or rest or len(ms) != 2 or not all(m['complete'] for m in ms) or ms[0]['code'] != 200:
            viol.append({'key': 'web|followup-rejected|answers-malformed-or-miscounted', 'detail': dict(detail, err=err)})
        elif ms[1]['code'] >= 400:
            outc = 'rejected'
            says_close = dict(ms[1]['headers']).get(b'connection', b'').lower() == b'close'
            if not client.ended:
                before = len(client.rx)
                client.send(third)
                rig.until(lambda: client.ended or len(client.rx) > before, [client], idle_timeout=0.4)
                rig.settle([client], quiet=6)
                if len(client.rx) > before:
                    viol.append({'key': 'web|followup-rejected|request-served-after-the-connection-was-rejected', 'detail': dict(detail, says_close=says_close)})
                elif not client.ended:
                    viol.append({'key': 'web|followup-rejected|connection-kept-open-after-rejection', 'detail': dict(detail, says_close=says_close)})
            if not viol:
                obs['web_followup_rejections_checked'] = 1
        else:
            outc = 'served'     # a route answered that path after all: nothing was rejected
    except LoopDied as e:
        viol.append({'key': 'web|followup-rejected|loop-died:%s' % e.where(), 'detail': {'tb': e.tb[-900:]}})
    finally:
        rig.close()
    obs['outcome:' + outc] = 1
    return {'viol': viol, 'nontrivial': True, 'sig': 'wfr/%s/%s/%s' % (case['i'], case['packing'], case.get('mode')), 'obs': obs,
            'sets': {'outcomes': {outc}}, 'sample': {'case': case}}


def run_case(case: Dict[str, Any]) -> Dict[str, Any]:
    if case.get('kind') == 'web-followup-rejected':
        return run_web_followup_rejected(case)
    if case.get('kind') == 'own-reply-large':
        return run_own_reply_large(case)
    if case.get('kind') == 'builder':
        return run_builder_case(case)
    if case.get('kind') == 'rejected-then-more':
        return run_rejected_then_more(case)
    rng = random.Random('c06:%s:%s' % (case['seed'], case['i']))
    cfg = case.get('cfg', 'proxy')
    flags = make_flags(_FLAGS[cfg], cache_key='c06:' + cfg)
    shim.S.reset()
    resolver.reset()        # no DNS here: unknown names fail at once instead of after resolver timeouts
    texc = monitors.watch_task_exceptions()
    rig = StepRig(flags, 'local')
    viol: List[Dict[str, Any]] = []
    obs: Dict[str, int] = {}
    outc = 'error'
    kind = case['kind']
    data = b''
    try:
        origin = None
        if case.get('live_origin'):
            origin = rig.add_origin('127.0.%d.%d' % (rng.randint(0, 250), rng.randint(2, 250)))
            up = origin.hostport
        else:
            ip = '127.0.%d.%d' % (rng.randint(0, 250), rng.randint(2, 250))
            up = ('%s:%d' % (ip, refused_port(ip))).encode()
        data = make_input(rng, case, up)
        pieces = segment(rng, data, case['seg'])
        alog = audit.start()
        client = rig.add_client('unix')
        served_ok = False
        for pc in pieces:
            off = 0
            while off < len(pc) and not client.send_error:
                n = client.send(pc[off:])
                if n <= 0:
                    rig.step()
                    client.pump()
                    if client.ended:
                        break
                    continue
                off += n
            rig.step(rng.randint(1, 2))
            client.pump()
        if origin is not None:
            # an answering origin: reply once to whatever arrives, then stay open
            def answered() -> bool:
                for oc in origin.accept_all():
                    pass
                for oc in origin.conns:
                    oc.pump()
                    if oc.rx and not getattr(oc, 'replied', False):
                        oc.replied = True      # type: ignore[attr-defined]
                        oc.send(b'HTTP/1.1 200 OK\r\nX-From-Origin: 1\r\nContent-Length: 2\r\n\r\nok')
                return False
            rig.until(answered, [client], idle_timeout=0.05)
        rig.settle([client], quiet=8)
        audit.stop()
        connects = [a for (ev, a) in alog if ev == 'socket.connect']
        rx = bytes(client.rx)
        is_connect = data[:8].upper().startswith(b'CONNECT ')
        # Responses are judged by their own framing (a HEAD request is judged like a GET: whether an error
        # page may carry a body in reply to HEAD is not what the property is about).
        method = b'CONNECT' if is_connect else b'GET'
        msgs, err, left = h11util.parse_responses(rx, [method] * 8, eof=client.ended)
        reqs, rerr, _ = h11util.parse_requests(data)
        req_complete = bool(reqs) and reqs[0]['complete'] and not (rerr and len(reqs) < 1)
        # h11 tolerates bare LF line endings (header block *and* chunked framing); a proxy that keeps
        # waiting for CRLF is within its rights.  'complete' = complete for h11 and for the strict grammar.
        if req_complete and not strictly_complete(data, reqs[0]):
            req_complete = False
            obs['h11-lenient-completion'] = 1
        relayed = b'X-From-Origin' in rx      # bytes produced by the harness origin, not by the proxy
        finals = [m for m in msgs if not m.get('interim')]

        def flag(what: str, **d: Any) -> None:
            viol.append({'key': '%s|%s|%s' % (cfg, kind if kind != 'nonutf8' else 'nonutf8-' + case['field'], what),
                         'detail': dict(d, input=data[:300], input_len=len(data), got=rx[:300], ended=client.ended,
                                        task_exc=[t[0] for t in texc][:3])})
        # (1) every emitted byte belongs to complete, well-framed responses
        tunnel_ok = is_connect and finals and 200 <= finals[0]['code'] < 300
        if rx and not relayed:
            if err:
                flag('malformed-response', err=err)
            elif not msgs or not msgs[-1]['complete']:
                flag('partial-response', n=len(rx))
            elif left and not tunnel_ok:
                flag('bytes-after-response', left=left[:60])
        # (2) a rejection is followed by end-of-stream
        rejected = [m for m in finals if m['code'] >= 400 and dict(m['headers']).get(b'connection', b'').lower() == b'close']
        if rejected and not client.ended:
            rig.until(lambda: client.ended, [client], idle_timeout=0.3)     # absence verdict: wait with real time
            if not client.ended:
                flag('open-after-rejection', code=rejected[0]['code'])
        if rejected and finals[-1] is not rejected[0]:
            # the first response that announces the end of the conversation is the last thing sent (another rejection included)
            flag('response-after-rejection', codes=[m['code'] for m in finals])
        # (3) silence with the connection open
        if not rx and not client.ended:
            if req_complete and not connects:
                rig.until(lambda: client.ended or len(client.rx) > 0, [client], idle_timeout=0.3)
                if not client.rx and not client.ended:
                    flag('complete-request-ignored', h11=str(reqs[0]['method']))
        if rx and finals:
            outc = 'rejected' if rejected else ('tunnel' if tunnel_ok else 'response-%dxx' % (finals[0]['code'] // 100))
        elif client.ended:
            outc = 'closed-silently'
        elif connects:
            outc = 'handed-upstream'
        else:
            outc = 'waiting'
        obs['connects'] = len(connects)
    except LoopDied as e:
        viol.append({'key': '%s|%s|loop-died:%s' % (cfg, kind if kind != 'nonutf8' else 'nonutf8-' + case['field'], e.where()),
                     'detail': {'input': data[:300], 'tb': e.tb[-900:]}})
        outc = 'loop-died'
    finally:
        audit.stop()
        rig.close()
    obs['outcome:' + outc] = 1
    obs['kind:' + kind] = 1
    obs['seg:' + case['seg']] = 1
    import zlib
    return {'viol': viol, 'nontrivial': outc not in ('waiting', 'error'),
            'sig': '%x/%s/%s' % (zlib.crc32(data), case['seg'], cfg), 'obs': obs, 'sets': {'outcomes': {outc}},
            'sample': {'kind': kind, 'input': data[:200], 'seg': case['seg'], 'outcome': outc}}


BASES = ['get', 'connect', 'post', 'chunked', 'web', 'web10', 'head']
BYTES = ['00', 'ff', '20', '0d', '0a', '3a', '2f', '80', '7f', '25']


def cases(tier: str, seed: int):
    rng = random.Random('c06cases:%d' % seed)
    i = 0

    def mk(**kw: Any) -> Dict[str, Any]:
        nonlocal i
        i += 1
        d = {'seed': seed, 'i': i, 'seg': 'whole', 'cfg': 'proxy'}
        d.update(kw)
        return d
    segs = ['whole', 'two', 'bytes']
    for b in BASES:
        for cfg in ('proxy', 'web'):
            for sg in segs:
                yield mk(kind='valid', base=b, cfg=cfg, seg=sg)
                yield mk(kind='valid', base=b, cfg=cfg, seg=sg, live_origin=True)
    # every truncation of every base
    for b in BASES:
        n = len(bases(b'127.0.100.100:50000')[b])
        step = 1
        for pos in range(0, n + 1, step):
            yield mk(kind='trunc', base=b, pos=pos, cfg='web' if b.startswith('web') else 'proxy', seg=segs[pos % 3])
    # mutations
    nm = 7000 if tier == 'quick' else 60000
    for k in range(nm):
        b = BASES[k % len(BASES)]
        yield mk(kind=rng.choice(['mutate', 'mutate', 'insert', 'delete']), base=b, pos=rng.randrange(400), byte=rng.choice(BYTES),
                 n=rng.choice([1, 1, 2, 5]), cfg=rng.choice(['proxy', 'web']), seg=rng.choice(segs), live_origin=rng.random() < 0.2)
    for k in range(2000 if tier == 'quick' else 20000):
        yield mk(kind='random', cfg=rng.choice(['proxy', 'web']), seg=rng.choice(segs))
    for k in range(len(SPECIALS)):
        for cfg in ('proxy', 'web'):
            for sg in segs:
                yield mk(kind='special', idx=k, cfg=cfg, seg=sg)
    for names in [['get', 'get'], ['web', 'web'], ['get', 'post'], ['post', 'get'], ['connect', 'get'], ['web10', 'web'], ['chunked', 'chunked'],
                  ['head', 'get', 'get'], ['web', 'get'], ['get', 'web']]:
        for sg in segs:
            yield mk(kind='concat', names=names, seg=sg, cfg='web' if names[0].startswith('web') else 'proxy', live_origin=True)
            yield mk(kind='concat', names=names, seg=sg, cfg='web' if names[0].startswith('web') else 'proxy')
    for w in ['long-target', 'long-header', 'many-headers', 'many-headers:33', 'many-headers:65', 'many-headers:101', 'many-headers:129',
              'many-headers:257', 'many-headers:1025', 'long-method', 'no-crlf', 'crlf-flood']:
        for sg in ('whole', 'two'):
            yield mk(kind='oversize', what=w, seg=sg, cfg=rng.choice(['proxy', 'web']))
    for k in range(1500 if tier == 'quick' else 45000):
        yield mk(kind='builder', law=['L2', 'L7', 'L8'][k % 3])
    for k, garbage in enumerate(['BOGUS\r\n\r\n', 'GET\r\n\r\n', '\x00\x01\x02\r\n\r\n', 'GET ftp://x/ HTTP/1.1\r\n\r\n'] * (2 if tier == 'quick' else 20)):
        yield mk(kind='rejected-then-more', garbage=garbage, size=[3000000, 8000000][k % 2], mode='local' if k % 3 else 'remote')
    for k, garbage in enumerate(['BOGUS\r\n\r\n', 'GET\r\n\r\n', 'POST http://h.test/x HTTP/1.1\r\nContent-Length: abc\r\n\r\n', 'GET gopher://x/ HTTP/1.1\r\n\r\n',
                                 'POST http://h.test/x HTTP/1.1\r\nTransfer-Encoding: chunked\r\n\r\nZZ\r\n'] * (2 if tier == 'quick' else 20)):
        yield mk(kind='rejected-then-more', garbage=garbage, size=[1000, 200000][k % 2], mid_response=True, mode='local' if k % 3 else 'remote')
    for k in range(40 if tier == 'quick' else 600):
        yield mk(kind='web-followup-rejected', packing=['separate', 'concatenated'][k % 2], mode='local' if k % 3 else 'remote', transport=['unix', 'tcp'][(k // 2) % 2])
    for k, size in enumerate([1000, 65336, 65400, 65535, 65536, 65537, 70000, 131072, 200000, 1000000] * (2 if tier == 'quick' else 20)):
        yield mk(kind='own-reply-large', size=size, mode='local' if (k // 10 + k) % 3 else 'remote', transport=['unix', 'tcp'][(k // 10) % 2],
                 reader=['eager', 'slow'][(k // 10 + k) % 2], close=bool(k % 4 == 0))
    for a in range(11):
        for b2 in range(11):
            for shape in (['cl-cl'] if tier == 'quick' and (a + b2) % 3 else ['cl-cl', 'triple']):
                yield mk(kind='dup-framing', a=a, b=b2, shape=shape, seg=segs[(a + b2) % 3], cfg='proxy' if (a * 11 + b2) % 4 else 'web',
                         live_origin=(a + b2) % 2 == 0)
    for k in range(60 if tier == 'quick' else 1200):
        yield mk(kind='dup-framing', a=rng.randrange(11), b=rng.randrange(11), shape=rng.choice(['te-cl', 'cl-te', 'te-te']), seg=rng.choice(segs),
                 cfg=rng.choice(['proxy', 'web']), live_origin=rng.random() < 0.5)
    for f in ['method', 'host', 'path', 'version', 'header-name', 'header-value', 'connect-host', 'web-path', 'web-ua', 'body']:
        for rep in range(3 if tier == 'quick' else 40):
            for sg in segs:
                yield mk(kind='nonutf8', field=f, seg=sg, cfg='web' if f.startswith('web') else 'proxy', live_origin=(rep % 2 == 1))


def floors(tier: str) -> Dict[str, int]:
    return {'builder:L2': 300, 'builder:L7': 300, 'builder:L8': 300,'outcome:rejected': 300, 'outcome:waiting': 100, 'outcome:closed-silently': 5, 'kind:trunc': 300,
            'kind:mutate': 200, 'kind:random': 200, 'kind:nonutf8': 50, 'distinct:outcomes': 5,
            'kind:dup-framing': 150, 'nothing_forwarded_after_rejection': 6, 'mid_response_followups_checked': 6, 'web_followup_rejections_checked': 25, 'own_replies_beyond_send_unit_checked': 8}


if __name__ == '__main__':
    raise SystemExit(driver.main(__import__('checks.c06', fromlist=['x'])))

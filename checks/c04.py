"""C04 — each request on a persistent connection is answered once, in order, by the origin/route it names.

Step rig: the real executor loop serves one client connection carrying 1..6 id-tagged requests in the
forward-proxy, web-server or reverse-proxy role.  Origins are harness listeners that answer request i
only after having read it completely and stamp their own name and the request id into the response;
web routes are generated HttpWebServerBasePlugin classes that do the same.  The client's transcript is
split into responses by h11 (client role) and matched against the request list.
"""
import random
from typing import Any, Dict, List, Optional, Tuple

from rig import env, driver, shim, monitors, h11util, conv

env.quiet_logging()

from rig.steprig import StepRig, make_flags, LoopDied      # noqa: E402

from proxy.http.parser import HttpParser                                    # noqa: E402
from proxy.http.server import HttpWebServerBasePlugin, ReverseProxyBasePlugin, httpProtocolTypes   # noqa: E402
from proxy.http.responses import okResponse                                 # noqa: E402
from proxy.http.websocket import WebsocketFrame                             # noqa: E402

PROPERTY = 'C04'
LEVEL = 'exploration'
LEVEL_TEXT = ('Exploration: seeded histories of 1..6 id-tagged requests (with/without bodies, same or different '
              'origins/routes) on one connection x role (forward proxy, web server, reverse proxy) x packing '
              '(keep-alive one at a time; pipelined one request per segment, several per segment, cut anywhere, '
              'byte-wise) x scheduler interleavings of client sends, proxy iterations and origin answers (whole or in '
              'pieces, immediate or delayed). Every history is judged by matching the responses the client read '
              '(split by h11) against the request list, and the requests each origin read against those addressed to it.')
LEVEL_NOTE = ('Trusted: h11 as response splitter, the strict request splitter in rig/conv.py used by the harness origins, '
              'unique request ids. Pipelined requests to *different* origins are only generated in keep-alive packing '
              '(a proxy cannot reorder answers of independent origins without buffering; the property is judged there '
              'on sequential use).')
TECHNIQUE = 'offline history checking of id-tagged request/response transcripts at client and origin sockets (h11 as splitter)'
RULE = ('case = (role, request list with targets/bodies, packing, cut seed, origin answer timing); non-trivial = >= 2 '
        'requests on the connection; distinct = role/packing/targets/body kinds + schedule hash')
ASSUMPTIONS = ['requests carry unique ids; only the last request of a history may ask for the connection to be closed (Connection: close / HTTP/1.0)', 'origins answer in request order on each connection']
SHARDS = {'quick': 8, 'thorough': 16}
BUDGET_S = {'quick': 45, 'thorough': 800}

_routes: Dict[str, Any] = {'A': None, 'B': None, 'A2': None}     # reverse-proxy upstream URLs of the running case


def _rid(request: HttpParser) -> bytes:
    return request.header(b'x-req-id') if request.has_header(b'x-req-id') else b'?'


class RouteA(HttpWebServerBasePlugin):
    NAME = b'WA'

    def routes(self) -> List[Tuple[int, str]]:
        return [(httpProtocolTypes.HTTP, r'/wa/'), (httpProtocolTypes.HTTPS, r'/was/'),    # '/was/' exists behind the TLS front only
                (httpProtocolTypes.WEBSOCKET, r'/wsa$')]                                   # an upgrade target (used by C05's hostile frames)

    def on_websocket_message(self, frame: Any) -> None:
        self.client.queue(memoryview(WebsocketFrame.text(b'ws-ack')))

    def handle_request(self, request: HttpParser) -> None:
        body = self.NAME + b'|' + _rid(request) + b'|' + (request.body or b'')[:8]
        self.client.queue(okResponse(content=body, headers={b'X-Origin': self.NAME}, compress=False))


class RouteB(RouteA):
    NAME = b'WB'

    def routes(self) -> List[Tuple[int, str]]:
        return [(httpProtocolTypes.HTTP, r'/wb/')]


class Rev(ReverseProxyBasePlugin):
    def routes(self) -> List[Any]:
        r: List[Any] = []
        if _routes['A']:
            r.append((r'/ra/', [_routes['A']] + ([_routes['A2']] if _routes['A2'] else [])))
        if _routes['B']:
            r.append((r'/rb/', [_routes['B']]))
        r.append(r'/rl/')       # dynamic route answered by the plugin itself (a literal response)
        return r

    def handle_route(self, request: HttpParser, pattern: Any) -> Any:
        body = b'OL|' + _rid(request) + b'|'
        return memoryview(b'HTTP/1.1 200 OK\r\nContent-Length: %d\r\nX-Origin: OL\r\n\r\n' % len(body) + body)


def flags_for(role: str, pp: bool = False) -> Any:
    ppf = ['--enable-proxy-protocol'] if pp else []
    if role == 'forward':
        return make_flags(ppf, cache_key='c04:forward:%s' % pp)
    if role == 'web':
        return make_flags(['--enable-web-server'] + ppf, plugins=[RouteA, RouteB], cache_key='c04:web:%s' % pp)
    if role == 'mixed':
        # web routes and reverse-proxy routes side by side: one connection may address both kinds in any order
        return make_flags(['--enable-web-server', '--enable-reverse-proxy'], plugins=[RouteA, RouteB, Rev], cache_key='c04:mixed')
    return make_flags(['--enable-reverse-proxy'], plugins=[Rev], cache_key='c04:reverse')


def build_request(role: str, spec: Dict[str, Any], hostports: Dict[str, bytes]) -> bytes:
    rid = spec['rid'].encode()
    tgt = spec['to']
    if role == 'forward':
        hp = hostports[tgt]
        target = b'http://%s/f/%s' % (hp, rid)
        host = hp
    elif role == 'web' or (role == 'mixed' and tgt in ('WA', 'WB', 'N')):
        target = {'A': b'/wa/', 'B': b'/wb/', 'WA': b'/wa/', 'WB': b'/wb/', 'N': b'/no-such-route/'}[tgt] + rid
        host = b'web.test'
    else:
        target = {'A': b'/ra/', 'B': b'/rb/', 'L': b'/rl/'}[tgt] + rid
        host = b'rev.test'
    body = spec.get('body')
    version = b'HTTP/1.0' if spec.get('last') == 'http10' else b'HTTP/1.1'
    head = b'%s %s %s\r\nHost: %s\r\nX-Req-Id: %s\r\n' % (spec['method'].encode(), target, version, host, rid)
    if spec.get('last') == 'close':
        head += b'Connection: %s\r\n' % (spec.get('conn_value') or 'close').encode()
    elif spec.get('conn_value'):
        # persistent connections announced the way real clients spell it: 'Keep-Alive' (ab, wget), 'keep-alive', 'KEEP-ALIVE'
        head += b'Connection: %s\r\n' % spec['conn_value'].encode()
    if body is None:
        return head + b'\r\n'
    b = body.encode()
    if spec.get('chunked'):
        sizes = spec.get('sizes') or ([len(b)] if b else [])
        return head + b'Transfer-Encoding: chunked\r\n\r\n' + conv.refcodec.enchunk(b, sizes)
    return head + b'Content-Length: %d\r\n\r\n' % len(b) + b


def expected_tag(role: str, spec: Dict[str, Any]) -> bytes:
    name = spec['to'] if spec['to'] in ('WA', 'WB') else {'forward': 'O', 'web': 'W', 'reverse': 'O', 'mixed': 'O'}[role] + spec['to']
    return ('%s|%s|' % (name, spec['rid'])).encode()


def run_case(case: Dict[str, Any]) -> Dict[str, Any]:
    rng = random.Random('c04:%s:%s' % (case['seed'], case['i']))
    role, packing = case['role'], case['packing']
    specs: List[Dict[str, Any]] = case['requests']
    shim.S.reset()
    texc = monitors.watch_task_exceptions()
    flags = flags_for(role, bool(case.get('pp')))
    rig = StepRig(flags, case.get('mode', 'local'))
    viol: List[Dict[str, Any]] = []
    obs: Dict[str, int] = {}
    sched: List[str] = []
    # pipelined (sent without waiting for the previous response) AND a later request addresses something else than an earlier
    # request that has to wait for its upstream: the later answer can overtake - classified apart (see known findings)
    pipelined = packing not in ('keepalive', 'overlap')
    overtaking = pipelined and role in ('reverse', 'mixed') and any(
        specs[j]['to'] in ('A', 'B') and specs[k]['to'] != specs[j]['to'] for k in range(len(specs)) for j in range(k))
    feat = '%s|%s|%s' % (role, packing, ('multi+overtaking' if overtaking else 'multi') if len({s['to'] for s in specs}) > 1 else 'single')
    origins: Dict[str, conv.AutoOrigin] = {}
    try:
        hostports: Dict[str, bytes] = {}
        if role != 'web':
            def responder(req: Dict[str, Any], name: str) -> List[bytes]:
                rid = req['hd'].get(b'x-req-id', b'?').decode('latin-1')
                return conv.tagged_response(rng, name, rid, framing=rng.choice(['cl', 'cl', 'chunked']),
                                            pieces=rng.choice([1, 1, 2, 4]), extra=req['body'][:8])
            for nm in ('A', 'B'):
                o = rig.add_origin('127.0.%d.%d' % (rng.randint(0, 250), rng.randint(2, 250)))
                origins[nm] = conv.AutoOrigin(o, 'O' + nm, responder)
                hostports[nm] = o.hostport
            if role in ('reverse', 'mixed'):
                _routes['A'] = b'http://%s/pa' % hostports['A']
                _routes['B'] = b'http://%s/pb' % hostports['B']
                _routes['A2'] = None
        client = rig.add_client(case.get('transport', 'unix'))
        raws = [build_request(role, s, hostports) for s in specs]
        if case.get('pp'):
            # behind a load balancer speaking the PROXY protocol: one line ahead of the first request of the connection, nothing else changes
            raws[0] = {'TCP4': b'PROXY TCP4 192.0.2.7 198.51.100.9 50123 8899\r\n', 'UNKNOWN': b'PROXY UNKNOWN\r\n'}[case['pp']] + raws[0]
            obs['proxy_protocol_histories'] = 1
        methods = [s['method'].encode() for s in specs]
        want = [expected_tag(role, s) for s in specs]

        def responses() -> Tuple[List[Dict[str, Any]], Optional[str], bytes]:
            return h11util.parse_responses(bytes(client.rx), methods + [b'GET'], eof=client.eof, max_msgs=len(methods) + 5)

        def ncomplete() -> int:
            if len(raws) > 50:
                # deep pipelines: counting status lines is enough to pace the run (the full parse happens once, at the end)
                n200 = bytes(client.rx).count(b'HTTP/1.1 200 OK\r\n')
                if n200 < len(raws):
                    return n200
            ms, _, _ = responses()
            return sum(1 for m in ms if m['complete'] and not m.get('interim'))

        def world(steps: int = 1) -> None:
            """one scheduler round: proxy iterations, origins read/answer (maybe delayed / partial), client reads"""
            for _ in range(steps):
                a = rng.choice(['P', 'P', 'P', 'O', 'O', 'C'])
                sched.append(a)
                if a == 'P':
                    rig.step()
                elif a == 'O':
                    for ao in origins.values():
                        ao.tick()
                        for c in ao.conns:
                            if c.out and rng.random() < case.get('answer_p', 0.7):
                                c.send_some()
                else:
                    client.pump(rng.choice([1, 64, None, None]))

        def settle_until(pred: Any, max_rounds: int = 4000) -> bool:
            def p() -> bool:
                for ao in origins.values():
                    ao.tick()
                    for c in ao.conns:
                        c.send_some()
                return bool(pred())
            for _ in range(60):
                world(5)
                if pred():
                    return True
            return rig.until(p, [client], idle_timeout=case.get('grace', 0.5))

        if packing == 'overlap':
            # request k+1 is half on the wire when response k arrives: its first part is sent right behind request k,
            # the remainder only after response k has been read completely
            carry = b''
            for k, raw in enumerate(raws):
                client.send(carry + raw if not carry else raw[len(carry_sent):])
                carry = b''
                carry_sent = b''
                if k + 1 < len(raws):
                    cut = rng.randint(1, max(1, len(raws[k + 1]) - 1))
                    carry_sent = raws[k + 1][:cut]
                    world(rng.randint(0, 2))
                    client.send(carry_sent)
                    carry = carry_sent
                world(rng.randint(0, 3))
                if not settle_until(lambda: ncomplete() >= k + 1 or client.ended):
                    break
        elif packing == 'keepalive':
            for k, raw in enumerate(raws):
                pieces = conv.cut_bytes(rng, raw, case.get('ncuts', 0))
                for pc in pieces:
                    rest = pc
                    while rest:
                        n = client.send(rest)
                        if n < 0:
                            break
                        rest = rest[n:]
                        world(rng.randint(0, 3))
                if not settle_until(lambda: ncomplete() >= k + 1 or client.ended):
                    break
        else:
            stream = b''.join(raws)
            if packing == 'per-request':
                pieces = list(raws)
            elif packing == 'packed':
                pieces = []
                k = 0
                while k < len(raws):
                    g = rng.randint(2, 3)
                    pieces.append(b''.join(raws[k:k + g]))
                    k += g
            elif packing == 'packed-all':
                pieces = [stream]
            elif packing == 'bytes':
                pieces = [stream[j:j + 1] for j in range(len(stream))]
            else:
                pieces = conv.cut_bytes(rng, stream, case.get('ncuts', 3))
            for pc in pieces:
                rest = pc
                while rest:
                    n = client.send(rest)
                    if n < 0:
                        break
                    rest = rest[n:] if n > 0 else rest
                    world(rng.randint(0, 2) if packing == 'bytes' else rng.randint(0, 4))
                if client.send_error:
                    break
            settle_until(lambda: ncomplete() >= len(raws) or client.ended)
        # let anything extra (duplicates, strays) arrive as well
        rig.settle([client], quiet=6)
        for ao in origins.values():
            ao.tick()
        msgs, err, rest = responses()
        finals = [m for m in msgs if not m.get('interim')]
        got = [bytes(m['body']) for m in finals if m['complete']]
        obs['responses_matched'] = 0
        if any(sp.get('big') for sp in specs):
            obs['histories_with_buffer_sized_chunked_upload'] = 1
        detail_base = {'requests': [s['rid'] + '>' + s['to'] for s in specs], 'got': [g[:24] for g in got],
                       'packing': packing, 'client_ended': client.ended, 'client_rx_head': bytes(client.rx[:160]),
                       'origin_saw': {nm: [r['hd'].get(b'x-req-id', b'?') for r in ao.all_requests()] for nm, ao in origins.items()},
                       'origin_rx_tail': {nm: [bytes(c.peer.rx[-120:]) for c in ao.conns] for nm, ao in origins.items()}}
        if err:
            viol.append({'key': feat + '|client-stream-unparseable', 'detail': dict(detail_base, err=err, head=bytes(client.rx[:200]))})
        else:
            for k, w in enumerate(want):
                if specs[k]['to'] == 'N':
                    # a follow-up naming no route: the 404 a first request would get, then the connection is closed
                    if k >= len(finals) or finals[k]['code'] != 404 or not finals[k]['complete']:
                        viol.append({'key': feat + '|unrouted-follow-up-not-answered-with-404', 'detail': dict(detail_base, index=k)})
                    elif not client.ended:
                        viol.append({'key': feat + '|connection-open-after-404-with-connection-close', 'detail': dict(detail_base, index=k)})
                    else:
                        obs['unrouted_followups_checked'] = 1
                    break
                if k >= len(got):
                    kind = 'missing-response'
                    # which structural feature explains it?  the k-th request shared a segment with its predecessor
                    viol.append({'key': '%s|%s@%s' % (feat, kind, 'first' if k == 0 else 'later'),
                                 'detail': dict(detail_base, index=k, have=len(got), need=len(want))})
                    break
                if not got[k].startswith(w):
                    tag = got[k].split(b'|')
                    if len(tag) >= 2 and tag[1] == specs[k]['rid'].encode():
                        kind = 'answered-by-wrong-origin'
                    elif got[k] in [x for j, x in enumerate(got) if j != k] or any(got[k].startswith(x) for x in want[:k]):
                        kind = 'duplicate-or-reordered-response'
                    elif any(got[k].startswith(x) for x in want[k + 1:]):
                        kind = 'response-out-of-order'
                    else:
                        kind = 'unexpected-response:%d' % finals[k]['code']
                    viol.append({'key': '%s|%s@%s' % (feat, kind, 'first' if k == 0 else 'later'),
                                 'detail': dict(detail_base, index=k, expected=w, got_k=got[k][:60])})
                    break
                obs['responses_matched'] += 1
            if len(got) > len(want) and not viol:
                viol.append({'key': feat + '|extra-response', 'detail': detail_base})
            if rest and not viol:
                viol.append({'key': feat + '|stray-bytes-after-responses', 'detail': dict(detail_base, stray=rest[:80])})
        # origin side: exactly the ids addressed to each origin, in order
        if role != 'web':
            for nm, ao in origins.items():
                if any(c.bad for c in ao.conns):
                    viol.append({'key': feat + '|origin-stream-unparseable', 'detail': {'origin': nm, 'why': [c.bad for c in ao.conns]}})
                seen = [r['hd'].get(b'x-req-id', b'?').decode('latin-1') for r in ao.all_requests()]
                mine = [s_['rid'] for s_ in specs if s_['to'] == nm]
                foreign = [x for x in seen if x not in mine]
                if foreign and not any('wrong-origin' in v['key'] for v in viol):
                    viol.append({'key': feat + '|origin-saw-request-addressed-elsewhere', 'detail': dict(detail_base, origin=nm, seen=seen)})
                if len(seen) != len(set(seen)):
                    viol.append({'key': feat + '|request-forwarded-twice', 'detail': dict(detail_base, origin=nm, seen=seen)})
                obs['origin_requests'] = obs.get('origin_requests', 0) + len(seen)
        # still usable: nobody closed, so one more request must be served (unless the client itself asked for
        # the connection to end with its last request: then only the responses are owed)
        if specs[-1].get('last') or specs[-1]['to'] == 'N':
            obs['last_request_asks_close'] = 1
        elif not viol:
            if client.ended:
                viol.append({'key': feat + '|connection-closed-by-proxy', 'detail': detail_base})
            else:
                extra = {'rid': 'zz', 'to': specs[-1]['to'], 'method': 'GET'}
                client.send(build_request(role, extra, hostports))
                methods.append(b'GET')
                if not settle_until(lambda: ncomplete() >= len(raws) + 1 or client.ended):
                    viol.append({'key': feat + '|connection-unusable-after-%d' % min(len(raws), 3), 'detail': detail_base})
                else:
                    ms, _, _ = responses()
                    fin = [m for m in ms if not m.get('interim') and m['complete']]
                    if len(fin) != len(raws) + 1 or not fin[-1]['body'].startswith(expected_tag(role, extra)):
                        viol.append({'key': feat + '|connection-unusable-after-%d' % min(len(raws), 3), 'detail': dict(detail_base, last=fin[-1]['body'][:40] if fin else None)})
                    else:
                        obs['followup_served'] = 1
        if texc and viol:
            for v in viol:
                v['detail']['task_exceptions'] = sorted({t[0] for t in texc})
                v['detail']['task_tb'] = texc[0][1][-600:]
    except LoopDied as e:
        viol.append({'key': '%s|loop-died:%s' % (feat, e.where()), 'detail': {'tb': e.tb[-1200:]}})
    finally:
        rig.close()
    if overtaking:
        # one mechanism, one class: role / packing / position go into the detail, not into the key
        obs['overtaking_histories'] = 1
        for v in viol:
            kind = v['key'].split('|', 3)[3] if v['key'].count('|') >= 3 else v['key']
            for pos in ('@first', '@later'):
                kind = kind[:-len(pos)] if kind.endswith(pos) else kind
            v['detail'] = dict(v.get('detail') or {}, role=role, packing=packing, original_key=v['key'])
            v['key'] = 'pipelined-past-a-waiting-upstream|' + kind
    import zlib
    sh = zlib.crc32(''.join(sched).encode())
    n = len(specs)
    obs.update({'requests': n, 'role:' + role: 1, 'packing:' + packing: 1, 'histories>=3': 1 if n >= 3 else 0,
                'multi_target': 1 if len({s['to'] for s in specs}) > 1 else 0,
                'with_body': sum(1 for s in specs if s.get('body') is not None), 'iterations': rig.iterations})
    return {'viol': viol, 'nontrivial': n >= 2,
            'sig': '%s/%s/%s/%x' % (role, packing, ','.join(s['to'] + s['method'][0] + ('b' if s.get('body') is not None else '') for s in specs), sh),
            'obs': obs, 'sets': {'schedules': {sh}},
            'sample': {'case': case, 'schedule_head': ''.join(sched[:80])}}


def cases(tier: str, seed: int):
    rng = random.Random('c04cases:%d' % seed)
    n = 2400 if tier == 'quick' else 30000
    packings = ['keepalive', 'keepalive', 'per-request', 'packed', 'random', 'bytes', 'overlap']
    for i in range(n):
        role = ['forward', 'web', 'reverse'][i % 3]
        packing = packings[(i // 3) % len(packings)]
        nreq = rng.choice([1, 2, 2, 3, 3, 4, 6])
        multi = rng.random() < 0.4 and (packing == 'keepalive' or role == 'web' or (role == 'reverse' and i % 2 == 0))
        reqs = []
        for k in range(nreq):
            to = rng.choice(['A', 'B']) if multi else 'A'
            method = rng.choice(['GET', 'GET', 'POST', 'PUT'])
            spec: Dict[str, Any] = {'rid': 'q%d-%d' % (i, k), 'to': to, 'method': method}
            if method != 'GET':
                body = ''.join(rng.choice('abcdefghij') for _ in range(rng.choice([0, 1, 5, 30, 300])))
                spec['body'] = body
                if rng.random() < 0.35:
                    spec['chunked'] = True
                    left, sizes = len(body), []
                    while left > 0:
                        s = rng.randint(1, left)
                        sizes.append(s)
                        left -= s
                    spec['sizes'] = sizes
                if packing in ('keepalive', 'packed', 'per-request') and rng.random() < 0.05:
                    # a chunked upload whose decoded size sits exactly on (or next to) a multiple of the proxy's buffer size
                    n_ = rng.choice([65536, 131072, 131072, 262144, 131071, 131073])
                    spec['body'] = ('0123456789abcdef' * (n_ // 16 + 1))[:n_]
                    spec['chunked'] = True
                    spec['sizes'] = [min(n_, rng.choice([n_, 4096, 65536, 100000]))]
                    left = n_ - spec['sizes'][0]
                    while left > 0:
                        s_ = min(left, spec['sizes'][0])
                        spec['sizes'].append(s_)
                        left -= s_
                    spec['big'] = True
            reqs.append(spec)
        if role == 'reverse' and packing in ('keepalive', 'overlap') and rng.random() < 0.5:
            for r_ in reqs[1:]:
                if rng.random() < 0.5:
                    r_['to'] = 'L'      # answered by the plugin itself, must not reach (or be answered by) any upstream
        if rng.random() < 0.3:
            cv = rng.choice(['Keep-Alive', 'keep-alive', 'KEEP-ALIVE', 'keep-alive, TE'])
            for r_ in reqs:
                if rng.random() < 0.8:
                    r_['conn_value'] = cv
        if rng.random() < 0.25:
            reqs[-1]['last'] = rng.choice(['close', 'close', 'http10'])
            if reqs[-1]['last'] == 'close':
                reqs[-1]['conn_value'] = rng.choice(['close', 'close', 'Close', 'CLOSE'])
        elif role == 'web' and len(reqs) > 1 and rng.random() < 0.3:
            reqs[-1]['to'] = 'N'
        yield {'seed': seed, 'i': i, 'role': role, 'packing': packing, 'requests': reqs,
               'ncuts': rng.choice([0, 0, 1, 3, 8]), 'answer_p': rng.choice([1.0, 0.7, 0.3]),
               'pp': rng.choice(['TCP4', 'UNKNOWN']) if role in ('forward', 'web') and i % 5 == 0 else None,
               'transport': rng.choice(['unix', 'tcp']), 'mode': rng.choice(['local', 'local', 'remote'])}


    # web routes and reverse-proxy routes on one connection, in every order
    for k in range(150 if tier == 'quick' else 3000):
        nreq = rng.choice([2, 2, 3, 4])
        reqs = [{'rid': 'x%d-%d' % (k, j), 'to': rng.choice(['WA', 'WB', 'A', 'B', 'L']), 'method': rng.choice(['GET', 'GET', 'POST'])} for j in range(nreq)]
        if k % 3 == 0:
            reqs[0]['to'] = rng.choice(['WA', 'WB'])
            reqs[1]['to'] = rng.choice(['A', 'B'])
        for r_ in reqs:
            if r_['method'] == 'POST':
                r_['body'] = 'p' * rng.choice([0, 5, 300])
        if rng.random() < 0.2:
            reqs[-1]['last'] = rng.choice(['close', 'http10'])
        yield {'seed': seed, 'i': n + 1000 + k, 'role': 'mixed', 'packing': rng.choice(['keepalive', 'keepalive', 'per-request', 'overlap']), 'requests': reqs,
               'ncuts': rng.choice([0, 0, 2]), 'answer_p': rng.choice([1.0, 0.7]), 'transport': rng.choice(['unix', 'tcp']),
               'mode': rng.choice(['local', 'local', 'remote'])}
    # deep pipelines: very many tiny requests inside one read
    for k in range(6 if tier == 'quick' else 60):
        nreq = rng.choice([300, 1200, 2500])
        role = ['forward', 'web', 'forward'][k % 3]
        yield {'seed': seed, 'i': n + k, 'role': role, 'packing': 'packed-all', 'requests': [{'rid': 'd%d' % j, 'to': 'A', 'method': 'GET'} for j in range(nreq)],
               'ncuts': 0, 'answer_p': 1.0, 'transport': 'tcp', 'mode': 'local', 'grace': 2.0}


def floors(tier: str) -> Dict[str, int]:
    return {'histories>=3': 200, 'packing:packed': 150, 'role:forward': 50, 'role:web': 50, 'role:reverse': 50, 'role:mixed': 100, 'proxy_protocol_histories': 100,
            'responses_matched': 300, 'multi_target': 30, 'last_request_asks_close': 100, 'packing:overlap': 50, 'unrouted_followups_checked': 10, 'with_body': 100, 'distinct:schedules': 200, 'histories_with_buffer_sized_chunked_upload': 30}


if __name__ == '__main__':
    raise SystemExit(driver.main(__import__('checks.c04', fromlist=['x'])))

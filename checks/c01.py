"""C01 — relayed byte streams arrive exactly once, in order, unmodified.

Step rig: the real executor loop + real HttpProtocolHandler/HttpProxyPlugin relay
between a harness client and a harness origin on real sockets.  The origin's
stream (any framing) and, for tunnels, the client's stream are sent under a
seeded scheduler interleaving arrival pieces, peer reads of random sizes and
proxy iterations, with short-write / EAGAIN / recv-cap outcomes injected at the
proxy's own socket calls.  Oracle at the boundary: online prefix check after
every read, byte equality at quiescence.
"""
import random
from typing import Any, Dict, List, Optional, Tuple

import h11

from rig import env, driver, shim, monitors, gen_http as G

env.quiet_logging()

from rig.steprig import StepRig, make_flags, LoopDied      # noqa: E402

PROPERTY = 'C01'
LEVEL = 'exploration'
LEVEL_TEXT = ('Exploration: seeded random schedules over (framing x body x origin segmentation x client read pace x '
              'short-write/EAGAIN/recv-cap outcomes x buffer-size flags x executor mode), every execution judged by '
              'byte equality of position-coded streams at the peers. Decides the property on the interleavings '
              'actually produced; counts of distinct schedules, handler states and shim outcomes are in the evidence.')
LEVEL_NOTE = ('Trusted: kernel loopback/AF_UNIX sockets, the harness scheduler and the stream differ; injected send/recv '
              'outcomes are restricted to those a kernel may legally return.')
TECHNIQUE = 'runtime monitoring of boundary transcripts (stream conservation oracle) under seeded schedule + socket-outcome perturbation'
RULE = ('case = (role http|tunnel, response framing, body, origin cut list, schedule seed, shim rates, buffer flags, '
        'mode); non-trivial = >=2 arrival segments AND >=1 short/blocked write actually happened AND client buffer '
        'depth >=2 observed; distinct = case signature incl. schedule hash')
ASSUMPTIONS = ['upstream responses are well-formed (generator)', 'TLS-wrapped streams are covered by C11, not here']
SHARDS = {'quick': 8, 'thorough': 16}
BUDGET_S = {'quick': 45, 'thorough': 800}

FRAMINGS = ['cl', 'chunked', 'chunked-ext', 'chunked-trailers', 'close', 'interim+cl', 'seq']
ACK_OK = b'HTTP/1.1 200 Connection established\r\n\r\n'

_FLAGSETS = {
    'default': [],
    'tiny': ['--max-sendbuf-size', '7', '--client-recvbuf-size', '7', '--server-recvbuf-size', '7'],
    'one': ['--max-sendbuf-size', '1', '--server-recvbuf-size', '1', '--client-recvbuf-size', '3'],
    '4k': ['--max-sendbuf-size', '4096', '--client-recvbuf-size', '4096', '--server-recvbuf-size', '4096'],
}


def build_response(rng: random.Random, fr: str, size: int) -> Tuple[bytes, List[G.Msg]]:
    body = G.coded(b'U', size) if rng.random() < 0.6 else G.body_bytes(rng, size)
    msgs: List[G.Msg] = []
    if fr == 'interim+cl':
        m0 = G.Msg()
        m0.raw = rng.choice([b'HTTP/1.1 100 Continue\r\n\r\n', b'HTTP/1.1 103 Early Hints\r\nLink: </s.css>\r\n\r\n'])
        msgs.append(m0)
        fr = 'cl'
    framing = {'cl': 'cl', 'close': 'close'}.get(fr, 'chunked')
    m = G.gen_response(rng, framing=framing, body=body, ext=(fr == 'chunked-ext'), trailers=(fr == 'chunked-trailers'))
    msgs.append(m)
    return b''.join(x.raw for x in msgs), msgs


def ack_ok(ack: bytes) -> bool:
    """Exactly one well-formed 200 response without body (independent parser)."""
    try:
        c = h11.Connection(h11.CLIENT)
        c.send(h11.Request(method='CONNECT', target='h:1', headers=[('Host', 'h:1')]))
        c.receive_data(ack)
        ev = c.next_event()
        return isinstance(ev, h11.Response) and ev.status_code == 200
    except Exception:
        return False


def run_echo(case: Dict[str, Any]) -> Dict[str, Any]:
    """Full-duplex tunnel against an echoing origin that, like a single-threaded echo server, stops reading while it cannot
    write.  The client pushes `size` bytes as fast as the proxy takes them and reads concurrently: both directions are busy
    at once and both relay queues stay non-empty for the whole transfer.  Every byte comes back, in order."""
    rng = random.Random('c01e:%s:%s' % (case['seed'], case['i']))
    mode = case.get('mode', 'local')
    flags = make_flags(_FLAGSETS['default'], cache_key='c01:default')
    shim.S.reset()
    rig = StepRig(flags, mode)
    viol: List[Dict[str, Any]] = []
    obs: Dict[str, int] = {}
    size = case['size']
    try:
        origin = rig.add_origin('127.0.%d.%d' % (rng.randint(0, 250), rng.randint(2, 250)))
        client = rig.add_client(case.get('transport', 'unix'))
        hp = origin.hostport
        client.send(b'CONNECT %s HTTP/1.1\r\nHost: %s\r\n\r\n' % (hp, hp))
        box: Dict[str, Any] = {}

        def accepted() -> bool:
            if 'oc' not in box:
                p = origin.accept()
                if p is not None:
                    box['oc'] = p
            return 'oc' in box and b'\r\n\r\n' in client.rx
        if not rig.until(accepted, [client]):
            return {'viol': [], 'inconclusive': 'tunnel-not-established', 'obs': {}, 'sig': 'echo', 'nontrivial': False}
        oc = box['oc']
        head = len(client.rx)
        data = G.coded(b'E', size)
        st = {'sent': 0, 'echo_off': 0}

        def pump_all() -> bool:
            # client: push and read
            if st['sent'] < size:
                n = client.send(data[st['sent']:st['sent'] + 262144])
                if n > 0:
                    st['sent'] += n
            client.pump()
            # origin: echo; reads only while its unsent backlog is small (it is busy writing otherwise)
            backlog = len(oc.rx) - st['echo_off']
            if backlog > 0:
                n = oc.send(bytes(oc.rx[st['echo_off']:st['echo_off'] + 262144]))
                if n > 0:
                    st['echo_off'] += n
                    if st['echo_off'] > (4 << 20):
                        del oc.rx[:st['echo_off']]      # keep the harness's own memory flat
                        st['echo_off'] = 0
            if len(oc.rx) - st['echo_off'] < case.get('backlog', 65536):
                oc.pump(262144)
            return len(client.rx) - head >= size
        ok = rig.until(pump_all, [], idle_timeout=1.0, max_stall=8.0, max_wall=120.0)
        client.pump()
        got = bytes(client.rx[head:])
        d = monitors.diff_streams(data, got)
        if d is not None:
            viol.append({'key': 'echo|raw|to-client|%s' % d['kind'], 'detail': dict(d, pushed=st['sent'], size=size)})
        else:
            obs['echo_bytes_round_trip'] = size
            obs['echo_runs'] = 1
    except LoopDied as e:
        viol.append({'key': 'echo|raw|loop-died:%s' % e.where(), 'detail': {'tb': e.tb[-1200:]}})
    finally:
        rig.close()
    obs['role:echo'] = 1
    obs['mode:' + mode] = 1
    return {'viol': viol, 'nontrivial': True, 'sig': 'echo/%s/%d/%s' % (mode, size, case.get('backlog')), 'obs': obs,
            'sample': {'case': case}}


def run_case(case: Dict[str, Any]) -> Dict[str, Any]:
    if case['role'] == 'echo':
        return run_echo(case)
    rng = random.Random('c01:%s:%s' % (case['seed'], case['i']))
    role, fr, mode = case['role'], case['fr'], case.get('mode', 'local')
    flags = make_flags(_FLAGSETS[case['flags']], cache_key='c01:' + case['flags'])
    shim.S.reset()
    shim.S.rng = random.Random('shim:%s:%s' % (case['seed'], case['i']))
    texc = monitors.watch_task_exceptions()
    rig = StepRig(flags, mode)
    obs: Dict[str, int] = {}
    states = set()
    sched: List[str] = []
    viol: List[Dict[str, Any]] = []
    maxdepth = 0
    size = case['size']
    try:
        origin = rig.add_origin('127.0.%d.%d' % (rng.randint(0, 250), rng.randint(2, 250)))
        client = rig.add_client(case.get('transport', 'unix'), rcvbuf=case.get('rcvbuf'), sndbuf=case.get('sndbuf'))
        hp = origin.hostport
        nreq = 1
        pipelined = False
        early = b''
        if role == 'tunnel':
            if case.get('early_payload'):
                # a client that does not wait for the 200: its first tunnel bytes ride in the same segment as the CONNECT head
                early = G.coded(b'e', case['early_payload'])
            client.send(b'CONNECT %s HTTP/1.1\r\nHost: %s\r\n\r\n' % (hp, hp) + early)
        else:
            client.send(b'GET http://%s/r0 HTTP/1.1\r\nHost: %s\r\n\r\n' % (hp, hp))
            if fr == 'seq':
                nreq = rng.randint(2, 3)
                pipelined = bool(case.get('pipelined'))
        box: Dict[str, Any] = {}

        def accepted() -> bool:
            if 'oc' not in box:
                p = origin.accept()
                if p is not None:
                    box['oc'] = p
            return 'oc' in box
        if not rig.until(accepted, [client]):
            return {'viol': [], 'inconclusive': 'origin-never-connected', 'obs': {}, 'sig': 'x', 'nontrivial': False}
        oc = box['oc']
        # perturbations start once the exchange is established
        shim.S.short_write_p = case['short_p']
        shim.S.eagain_p = case['eagain_p']
        shim.S.recv_cap = case.get('recv_cap')

        expected_c = b''
        expected_o = b''
        if role == 'tunnel':
            expected_c_prefix = ACK_OK
            up = G.coded(b'U', size) if rng.random() < 0.7 else G.body_bytes(rng, size)
            down = G.coded(b'C', case.get('size_c', size)) if rng.random() < 0.7 else G.body_bytes(rng, case.get('size_c', size))
            o_pieces = G.cut_at(up, G.random_cuts(rng, len(up), case['ncuts']))
            c_pieces = G.cut_at(down, G.random_cuts(rng, len(down), case['ncuts']))
            expected_c = up
            expected_o = early + down
            if early:
                obs['early_tunnel_payloads'] = 1
            segs = len(o_pieces) + len(c_pieces)
        else:
            expected_c_prefix = b''
            streams = []
            for r in range(nreq):
                f = fr if fr != 'seq' else rng.choice(['cl', 'chunked', 'chunked-ext', 'chunked-trailers'])
                raw, _ = build_response(rng, f, size if r == 0 else min(size, 2000))
                streams.append(raw)
            cuts_mode = case.get('cuts', 'random')
            o_pieces = []
            per_req_pieces = []
            for raw in streams:
                if cuts_mode == 'bytes' and len(raw) <= 600:     # (a long chunk extension can make a tiny body a long message)
                    pcs = [raw[i:i + 1] for i in range(len(raw))]
                else:
                    pcs = G.cut_at(raw, G.random_cuts(rng, len(raw), case['ncuts']))
                per_req_pieces.append(pcs)
            o_pieces = per_req_pieces[0]
            if pipelined:
                # all requests were sent up front; the origin answers them as one stream whose pieces are cut without regard to
                # where one response ends and the next begins (a boundary inside a piece = two responses sharing one read)
                joined = b''.join(streams)
                o_pieces = G.cut_at(joined, G.random_cuts(rng, len(joined), case['ncuts']))
                obs['pipelined_response_sequences'] = 1
            c_pieces = []
            expected_c = b''.join(streams)
            segs = sum(len(p) for p in per_req_pieces)

        # wait for the request / ack to have crossed
        if role == 'tunnel':
            rig.until(lambda: b'\r\n\r\n' in client.rx, [client, oc])
        else:
            rig.until(lambda: b'\r\n\r\n' in oc.rx, [client, oc])
            if pipelined:
                client.send(b''.join(b'GET http://%s/r%d HTTP/1.1\r\nHost: %s\r\n\r\n' % (hp, r, hp) for r in range(1, nreq)))
                rig.until(lambda: oc.rx.count(b'\r\n\r\n') >= nreq, [client, oc], idle_timeout=0.5)
        if role == 'tunnel':
            ack = bytes(client.rx[:len(ACK_OK)])
            if not ack_ok(bytes(client.rx)) and len(client.rx) > 0:
                viol.append({'key': 'tunnel|ack-malformed', 'detail': {'got': bytes(client.rx[:200])}})
            prefix_len = len(client.rx)
            expected_full_c = bytes(client.rx) + expected_c      # ack judged separately above
            base_o = 0          # nothing of the CONNECT itself is forwarded: every byte the origin gets is tunnel payload
            req_seen = b''
        else:
            prefix_len = 0
            expected_full_c = expected_c
            base_o = len(oc.rx)

        profile = case['profile']
        w_read = {'eager': 5, 'slow': 1, 'stall': 0.2}[profile]
        oi = ci = 0
        o_rem = b''
        c_rem = b''
        cur_req = 0
        steps = 0
        cap = case.get('cap', 20000)
        closed_by_origin = False
        while steps < cap:
            steps += 1
            acts = []
            if o_rem or oi < len(o_pieces):
                acts += ['o-send'] * 3
            if c_rem or ci < len(c_pieces):
                acts += ['c-send'] * 3
            acts += ['step'] * 4
            acts += ['c-read'] * max(1, int(w_read)) if w_read >= 1 or rng.random() < w_read else []
            if role == 'tunnel':
                acts += ['o-read'] * max(1, int(w_read)) if w_read >= 1 or rng.random() < w_read else []
            a = rng.choice(acts)
            sched.append(a[0] + a[-1])
            if a == 'o-send':
                if not o_rem:
                    o_rem = o_pieces[oi]
                    oi += 1
                n = oc.send(o_rem)
                if n > 0:
                    o_rem = o_rem[n:]
                elif n < 0:
                    break
            elif a == 'c-send':
                if not c_rem:
                    c_rem = c_pieces[ci]
                    ci += 1
                n = client.send(c_rem)
                if n > 0:
                    c_rem = c_rem[n:]
                elif n < 0:
                    break
            elif a == 'c-read':
                client.pump(rng.choice([1, 7, 100, 4096, 65536, None]))
                if not monitors.is_prefix(expected_full_c, bytes(client.rx)):
                    break
            elif a == 'o-read':
                oc.pump(rng.choice([1, 7, 100, 4096, 65536, None]))
            else:
                rig.step()
                for w in rig.work_objs():
                    states.add(monitors.sample_state(w))
                    maxdepth = max(maxdepth, monitors.client_buffer_depth(w))
            # sequence of keep-alive exchanges: next request once this response has been fully sent
            if role == 'http' and not pipelined and not o_rem and oi >= len(o_pieces) and cur_req + 1 < nreq:
                # the client must have read the whole response before sending the next request
                want = sum(len(s) for s in streams[:cur_req + 1])
                if rig.until(lambda: len(client.rx) >= want, [client]):
                    cur_req += 1
                    before = len(oc.rx)
                    client.send(b'GET http://%s/r%d HTTP/1.1\r\nHost: %s\r\n\r\n' % (hp, cur_req, hp))
                    rig.until(lambda: len(oc.rx) > before and oc.rx.endswith(b'\r\n\r\n'), [oc])
                    o_pieces = per_req_pieces[cur_req]
                    oi = 0
                else:
                    break
            if not o_rem and oi >= len(o_pieces) and not c_rem and ci >= len(c_pieces) and (role == 'tunnel' or pipelined or cur_req + 1 >= nreq):
                break
        if fr == 'close' and role == 'http' and not o_rem and oi >= len(o_pieces):
            oc.close()
            closed_by_origin = True
        # wait (progress-based, never a fixed deadline) for everything expected, then a few more
        # iterations so that duplicated / injected bytes would show up as well
        def all_in() -> bool:
            if len(client.rx) < len(expected_full_c):
                return False
            return role != 'tunnel' or len(oc.rx) - base_o >= len(expected_o)
        rig.until(all_in, [client, oc], idle_timeout=case.get('grace', 0.6), max_wall=40 + size / 40000)
        if closed_by_origin:
            rig.until(lambda: client.ended, [client], idle_timeout=0.6)
        rig.settle([client, oc], quiet=8)
        got_c = bytes(client.rx)
        d = monitors.diff_streams(expected_full_c, got_c)
        if d is not None:
            viol.append({'key': '%s|%s|to-client|%s' % (role, fr, d['kind']), 'detail': d})
        if role == 'tunnel':
            got_o = bytes(oc.rx[base_o:])
            d2 = monitors.diff_streams(expected_o, got_o)
            if d2 is not None:
                viol.append({'key': '%s|%s|to-origin|%s' % (role, fr, d2['kind']), 'detail': d2})
        if closed_by_origin and not client.ended:
            viol.append({'key': 'http|close|client-not-closed-after-origin-close', 'detail': {}})
        # ---- how the conversation ends: nothing but the relayed bytes ever reaches either peer, whoever ends it and however ----
        ending = case.get('ending', 'none')
        if ending != 'none' and not viol and not closed_by_origin and not client.ended:
            n_c, n_o = len(client.rx), len(oc.rx)
            if ending == 'origin-rst':
                oc.reset_close()
            elif ending == 'origin-fin':
                oc.close()
            elif ending == 'client-rst':
                client.reset_close()
            elif ending == 'client-fin':
                client.shutdown_wr()
            watch = client if ending.startswith('origin') else oc
            rig.until(lambda: watch.ended, [watch], idle_timeout=0.6)
            rig.settle([p for p in (client, oc) if not p.closed], quiet=6)
            extra_c = bytes(client.rx[n_c:]) if not client.closed else b''
            extra_o = bytes(oc.rx[n_o:]) if not oc.closed else b''
            if extra_c:
                viol.append({'key': '%s|%s|bytes-injected-towards-client-at-%s' % (role, fr, ending), 'detail': {'extra': extra_c[:200]}})
            if extra_o:
                viol.append({'key': '%s|%s|bytes-injected-towards-origin-at-%s' % (role, fr, ending), 'detail': {'extra': extra_o[:200]}})
            if not watch.ended:
                viol.append({'key': '%s|%s|other-side-not-closed-after-%s' % (role, fr, ending), 'detail': {}})
            elif not extra_c and not extra_o:
                obs['ending:' + ending] = 1
        sv = monitors.structural_violations(rig)
        if sv and viol:
            viol[-1]['detail']['structural'] = sv
        if texc and viol:
            for v in viol:
                v['detail']['task_exceptions'] = [t[0] for t in texc]
                v['detail']['task_tb'] = texc[0][1]
                v['key'] += '|task-exc:' + texc[0][0]
        obs['bytes_to_client'] = len(got_c)
        obs['bytes_to_origin'] = len(oc.rx)
    except LoopDied as e:
        viol.append({'key': '%s|%s|loop-died:%s' % (role, fr, e.where()), 'detail': {'tb': e.tb[-1200:]}})
    finally:
        counts = dict(shim.S.counts)
        rig.close()
    shorts = counts.get('send:short', 0) + counts.get('send:eagain-injected', 0) + counts.get('send:eagain-real', 0)
    for k in ('send', 'recv', 'send:short', 'send:short-injected', 'send:eagain-injected', 'send:eagain-real', 'recv:capped'):
        obs['shim:' + k] = counts.get(k, 0)
    obs['iterations'] = rig.iterations
    obs['shim:send:short-real'] = max(0, counts.get('send:short', 0) - counts.get('send:short-injected', 0))
    obs['fr:' + fr] = 1
    obs['role:' + role] = 1
    obs['mode:' + mode] = 1
    nontrivial = segs >= 2 and shorts >= 1 and maxdepth >= 2
    obs['nontrivial_cases'] = 1 if nontrivial else 0
    obs['depth>=2'] = 1 if maxdepth >= 2 else 0
    import zlib
    sh = zlib.crc32(''.join(sched).encode())
    return {
        'viol': viol, 'nontrivial': nontrivial,
        'sig': '%s/%s/%s/%s/%d/%x' % (role, fr, mode, case['flags'], size, sh),
        'obs': obs, 'sets': {'handler_states': states, 'schedules': {sh}},
        'sample': {'case': case, 'schedule_head': ' '.join(sched[:60]), 'segments': segs,
                   'max_client_buffer_depth': maxdepth, 'shim': counts},
    }


def cases(tier: str, seed: int):
    rng = random.Random('c01cases:%d' % seed)
    n = 2400 if tier == 'quick' else 26000
    i = 0
    for k in range(n):
        i += 1
        role = 'tunnel' if k % 3 == 0 else 'http'
        fr = 'raw' if role == 'tunnel' else FRAMINGS[k % len(FRAMINGS)]
        flagset = rng.choice(['default', 'default', '4k', 'tiny', 'one'])
        if flagset in ('tiny', 'one'):
            size = rng.choice([0, 1, 5, 64, 700])
        else:
            size = rng.choice([0, 1, 17, 300, 5000, 70000, 140000] + ([262144] if tier == 'quick' else [262144, 600000]))
        sp, ep = rng.choice([(0, 0), (0.2, 0.1), (0.6, 0.2), (0.3, 0.6)])
        modes = ['local', 'local', 'remote']
        yield {'seed': seed, 'i': i, 'role': role, 'fr': fr, 'flags': flagset, 'size': size,
               'size_c': rng.choice([0, 3, 900, size]), 'ncuts': rng.choice([0, 1, 3, 9, 40]),
               'cuts': 'bytes' if (size <= 64 and rng.random() < 0.3) else 'random',
               'short_p': sp, 'eagain_p': ep, 'recv_cap': rng.choice([None, [1, 7, None], [4096, None]]),
               'profile': rng.choice(['eager', 'slow', 'slow', 'stall']),
               'transport': rng.choice(['unix', 'unix', 'tcp']), 'rcvbuf': rng.choice([None, None, 4096]),
               'sndbuf': rng.choice([None, None, 4096]),
               'mode': rng.choice(modes), 'ending': rng.choice(['none', 'origin-rst', 'origin-fin', 'client-rst', 'client-fin']),
               'early_payload': rng.choice([0, 0, 1, 300, 5000]) if role == 'tunnel' else 0,
               'pipelined': fr == 'seq' and rng.random() < 0.5}
    for k in range(3 if tier == 'quick' else 40):
        i += 1
        yield {'seed': seed, 'i': i, 'role': 'echo', 'fr': 'raw', 'flags': 'default', 'size': rng.choice([12, 24]) << 20, 'mode': rng.choice(modes),
               'backlog': rng.choice([65536, 1 << 20]), 'transport': rng.choice(['unix', 'tcp'])}
    if tier == 'thorough':
        for k in range(30):
            i += 1
            yield {'seed': seed, 'i': i, 'role': 'tunnel' if k % 2 else 'http', 'fr': 'raw' if k % 2 else rng.choice(['cl', 'chunked', 'close']),
                   'flags': 'default', 'size': rng.choice([1 << 20, 3 << 20, 8 << 20, 16 << 20]), 'size_c': 1 << 20,
                   'ncuts': 200, 'cuts': 'random', 'short_p': 0.3, 'eagain_p': 0.1, 'recv_cap': None, 'profile': 'slow',
                   'transport': 'tcp', 'rcvbuf': 4096, 'sndbuf': 4096, 'mode': rng.choice(['local', 'remote']), 'cap': 400000,
                   'drain': 2000000}


def floors(tier: str) -> Dict[str, int]:
    fl = {'nontrivial_cases': 100, 'distinct:schedules': 300, 'distinct:handler_states': 3,
          'shim:send:short-injected': 100, 'shim:send:eagain-injected': 50, 'shim:send:short-real': 20, 'mode:remote': 50, 'role:tunnel': 50,
          'echo_runs': 2, 'early_tunnel_payloads': 100, 'pipelined_response_sequences': 40, 'ending:origin-rst': 40, 'ending:origin-fin': 40, 'ending:client-rst': 40, 'ending:client-fin': 40}
    for f in FRAMINGS:
        fl['fr:' + f] = 10
    return fl


if __name__ == '__main__':
    raise SystemExit(driver.main(__import__('checks.c01', fromlist=['x'])))

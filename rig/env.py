"""Process environment shared by every check: paths, import of the tree under test."""
import os
import sys
import logging

VERIF = os.path.dirname(os.path.dirname(os.path.abspath(__file__)))
REPO = os.environ.get('VERIF_REPO', '/repo')
WORK = os.path.join(VERIF, '.work')
DEPS = os.path.join(VERIF, '.deps')
GUARD = 'PROXYPY_VERIF'

sys.dont_write_bytecode = True
os.environ.setdefault('PYTHONDONTWRITEBYTECODE', '1')
os.environ[GUARD] = '1'

for p in (DEPS, VERIF, REPO):
    if p not in sys.path:
        sys.path.insert(0, p)


def quiet_logging() -> None:
    """The proxy logs every rejected request; the harness produces thousands."""
    if os.environ.get('VERIF_DEBUG'):
        logging.basicConfig(level=logging.DEBUG)
        return
    logging.disable(logging.CRITICAL)


def workdir(*parts: str) -> str:
    d = os.path.join(WORK, *parts)
    os.makedirs(d, exist_ok=True)
    return d

"""Process environment shared by every check: paths, import of the tree under test."""
import os
import sys
import time
import fcntl
import logging
import contextlib
from typing import Iterator

VERIF = os.path.dirname(os.path.dirname(os.path.abspath(__file__)))
REPO = os.environ.get('VERIF_REPO', '/repo')
WORK = os.path.join(VERIF, '.work')
DEPS = os.path.join(VERIF, '.deps')
GUARD = 'PROXYPY_VERIF'

sys.dont_write_bytecode = True
os.environ.setdefault('PYTHONDONTWRITEBYTECODE', '1')
os.environ[GUARD] = '1'

for p in (DEPS, VERIF, REPO):
    if p not in sys.path:
        sys.path.insert(0, p)


def quiet_logging() -> None:
    """The proxy logs every rejected request; the harness produces thousands."""
    if os.environ.get('VERIF_DEBUG'):
        logging.basicConfig(level=logging.DEBUG)
        return
    logging.disable(logging.CRITICAL)


def workdir(*parts: str) -> str:
    d = os.path.join(WORK, *parts)
    os.makedirs(d, exist_ok=True)
    return d


@contextlib.contextmanager
def exclusive(name: str, timeout: float = 60.0) -> Iterator[bool]:
    """Cross-process mutual exclusion (flock on a file under .work/locks) for harness resources that
    exist once per machine, e.g. a fixed port on the only IPv6 loopback address: shards of one check
    and concurrently running checks would otherwise meet on each other's listening sockets.
    Yields False when the lock could not be had in time (caller: inconclusive, never a verdict)."""
    # machine-wide (not per checkout): two checkouts of /verif running at once must still exclude each other
    import tempfile
    lockdir = os.path.join(tempfile.gettempdir(), 'verif-locks')
    os.makedirs(lockdir, exist_ok=True)
    path = os.path.join(lockdir, name.replace('/', '_') + '.lock')
    fd = os.open(path, os.O_CREAT | os.O_RDWR, 0o600)
    got = False
    try:
        end = time.monotonic() + timeout
        while True:
            try:
                fcntl.flock(fd, fcntl.LOCK_EX | fcntl.LOCK_NB)
                got = True
                break
            except OSError:
                if time.monotonic() > end:
                    break
                time.sleep(0.002)
        yield got
    finally:
        if got:
            fcntl.flock(fd, fcntl.LOCK_UN)
        os.close(fd)

"""A TLS origin for the step rig: a server thread (real ssl sockets) that answers every parsed request through a responder
callback, exposing the same read-side interface as conv.AutoOrigin (all_requests(), tick(), conns).

behaviour 'whole'  : answers are written in one go;
behaviour 'split'  : every answer's TLS records are cut across two TCP segments with a pause in between (ssl.MemoryBIO), so the
                     peer's socket turns readable while no application data can be returned yet;
behaviour 'late'   : the answer is delayed by `delay` seconds (under TLS 1.3 the session tickets have long arrived: the peer's
                     socket has been readable without any application data all along)."""
import ssl
import time
import socket
import threading
from typing import Any, Callable, Dict, List, Tuple

from . import conv


class TlsOrigin(threading.Thread):
    def __init__(self, ip: str, port: int, keycert: Tuple[str, str], name: str, responder: Callable[[Dict[str, Any], str], List[bytes]],
                 behaviour: str = 'whole', delay: float = 0.3) -> None:
        super().__init__(daemon=True)
        self.ls = socket.socket(socket.AF_INET6 if ':' in ip else socket.AF_INET, socket.SOCK_STREAM)
        self.ls.setsockopt(socket.SOL_SOCKET, socket.SO_REUSEADDR, 1)
        self.ls.bind((ip, port))
        self.ls.listen(16)
        self.ls.settimeout(0.02)
        self.host, self.port, self.name = ip, self.ls.getsockname()[1], name
        self.ctx = ssl.SSLContext(ssl.PROTOCOL_TLS_SERVER)
        self.ctx.load_cert_chain(certfile=keycert[1], keyfile=keycert[0])
        self.responder = responder
        self.behaviour, self.delay = behaviour, delay
        self.requests: List[Dict[str, Any]] = []
        self.handshakes: List[str] = []
        self.conns: List[Any] = []          # (AutoOrigin interface: nothing to pump, the thread does the I/O)
        self.stop = threading.Event()
        self.bad: List[str] = []
        self.start()

    def all_requests(self) -> List[Dict[str, Any]]:
        return list(self.requests)

    def tick(self, answer: bool = True) -> int:
        return 0

    def run(self) -> None:
        while not self.stop.is_set():
            try:
                c, _ = self.ls.accept()
            except socket.timeout:
                continue
            except OSError:
                break
            threading.Thread(target=self._serve, args=(c,), daemon=True).start()

    def _serve(self, c: socket.socket) -> None:
        c.settimeout(20)
        c.setsockopt(socket.IPPROTO_TCP, socket.TCP_NODELAY, 1)
        inc, out = ssl.MemoryBIO(), ssl.MemoryBIO()
        obj = self.ctx.wrap_bio(inc, out, server_side=True)

        def flush(split: bool) -> None:
            data = out.read()
            if not data:
                return
            if split and len(data) > 10:
                cut = len(data) // 2
                c.sendall(data[:cut])
                time.sleep(self.delay)
                c.sendall(data[cut:])
            else:
                c.sendall(data)

        def fill() -> bool:
            d = c.recv(65536)
            if not d:
                inc.write_eof()
                return False
            inc.write(d)
            return True
        try:
            while True:
                try:
                    obj.do_handshake()
                    flush(False)
                    break
                except ssl.SSLWantReadError:
                    flush(False)
                    if not fill():
                        self.handshakes.append('eof')
                        return
            self.handshakes.append('ok')
            plain = b''
            used = 0
            while not self.stop.is_set():
                try:
                    d = obj.read(65536)
                except ssl.SSLWantReadError:
                    flush(False)
                    if not fill():
                        break
                    continue
                except (ssl.SSLZeroReturnError, ssl.SSLError):
                    break
                if not d:
                    break
                plain += d
                try:
                    reqs, n = conv.split_requests(plain[used:])
                except conv.BadStream as e:
                    self.bad.append(str(e))
                    break
                used += n
                for r in reqs:
                    self.requests.append(r)
                    pieces = self.responder(r, self.name)
                    if self.behaviour == 'late':
                        time.sleep(self.delay)
                    for pc in pieces:
                        obj.write(pc)
                        flush(self.behaviour == 'split')
        except (OSError, ssl.SSLError):
            pass
        finally:
            try:
                c.close()
            except OSError:
                pass

    def close(self) -> None:
        self.stop.set()
        self.join(1.0)      # an accept() in progress keeps the listening socket alive: let it return before closing
        try:
            self.ls.close()
        except OSError:
            pass

"""Harness resolver: the sandbox has no DNS, so ``*.test`` names are mapped to loopback
addresses by overriding ``socket.getaddrinfo``.  Every lookup made while proxy code
runs is logged with the *original* host string (the audit hook would only see the
mapped address); everything else goes to the real resolver."""
import socket
import ipaddress
from typing import Any, Callable, Dict, List, Optional, Tuple

from . import shim

_real = socket.getaddrinfo
log: List[Tuple[Any, Any]] = []
table: Dict[str, str] = {}
passthrough: set = set()        # names answered by the real resolver from local files (e.g. 'localhost'), no DNS involved
default_ip: Optional[str] = None
_installed = False
strict = True


def _norm(host: Any) -> Optional[str]:
    if isinstance(host, bytes):
        try:
            host = host.decode('utf-8')
        except UnicodeDecodeError:
            return None
    if not isinstance(host, str):
        return None
    return host.rstrip('.').lower()


def _getaddrinfo(host: Any, port: Any, family: int = 0, type: int = 0, proto: int = 0, flags: int = 0) -> Any:
    if shim.active():
        log.append((host, port))
    h = _norm(host)
    ip = None
    if h is not None:
        ip = table.get(h)
        if ip is None and h.endswith('.test') and default_ip is not None:
            ip = default_ip
    if ip is None:
        if h is not None:
            try:
                ipaddress.ip_address(h.strip('[]'))
                return _real(host, port, family, type, proto, flags)     # numeric: no DNS involved
            except ValueError:
                pass
        if h in passthrough:
            return _real(host, port, family, type, proto, flags)
        if strict and shim.active():
            # no DNS in the sandbox: answer at once what the real resolver would answer eventually
            raise socket.gaierror(socket.EAI_NONAME, 'Name or service not known (harness resolver)')
        return _real(host, port, family, type, proto, flags)
    p = int(port) if port is not None else 0
    if not 0 <= p <= 65535:
        # out-of-range service numbers: let the real resolver decide what the mapped (numeric, DNS-free) address gets, so the
        # harness neither hides nor invents what the C library does with them (glibc reduces them modulo 65536)
        return _real(ip, port, family, type or socket.SOCK_STREAM, proto, flags)
    if ':' in ip:
        return [(socket.AF_INET6, type or socket.SOCK_STREAM, proto or 6, '', (ip, p, 0, 0))]
    return [(socket.AF_INET, type or socket.SOCK_STREAM, proto or 6, '', (ip, p))]


def install() -> None:
    global _installed
    if not _installed:
        socket.getaddrinfo = _getaddrinfo      # type: ignore[assignment]
        _installed = True


def reset(mapping: Optional[Dict[str, str]] = None, default: Optional[str] = None) -> List[Tuple[Any, Any]]:
    global default_ip
    install()
    table.clear()
    for k, v in (mapping or {}).items():
        table[k.lower()] = v
    default_ip = default
    passthrough.clear()
    del log[:]
    return log

"""Throw-away PKI for the TLS checks, made with the openssl command line (present in the image):
CAs, leaf certificates with chosen SANs, self-signed and expired leaves."""
import os
import subprocess
from typing import Dict, List, Optional, Tuple


def _run(args: List[str]) -> None:
    r = subprocess.run(['openssl'] + args, capture_output=True, timeout=120)
    if r.returncode != 0:
        raise RuntimeError('openssl %s: %s' % (' '.join(args[:3]), r.stderr.decode('latin-1')[-400:]))


def make_key(path: str, rsa: bool = False) -> str:
    if rsa:
        _run(['genrsa', '-out', path, '2048'])
    else:
        _run(['ecparam', '-name', 'prime256v1', '-genkey', '-noout', '-out', path])
    return path


def make_ca(d: str, name: str, rsa: bool = True) -> Tuple[str, str]:
    key, crt = os.path.join(d, name + '.key'), os.path.join(d, name + '.crt')
    make_key(key, rsa=rsa)
    cfg = os.path.join(d, name + '.cnf')
    with open(cfg, 'w') as f:
        f.write('[req]\ndistinguished_name=dn\nx509_extensions=v3\nprompt=no\n[dn]\nCN=%s\nO=verif\n[v3]\nbasicConstraints=critical,CA:TRUE\n'
                'keyUsage=critical,keyCertSign,cRLSign\nsubjectKeyIdentifier=hash\n' % name)
    _run(['req', '-x509', '-new', '-sha256', '-days', '30', '-key', key, '-out', crt, '-config', cfg])
    return key, crt


def san_list(names: List[str]) -> str:
    import ipaddress
    out = []
    for n in names:
        try:
            ipaddress.ip_address(n)
            out.append('IP:' + n)
        except ValueError:
            out.append('DNS:' + n)
    return ','.join(out)


def make_leaf(d: str, name: str, sans: List[str], ca: Optional[Tuple[str, str]], expired: bool = False,
              org: Optional[str] = 'origin', utf8: bool = False) -> Tuple[str, str]:
    """ca=None => self-signed leaf.  Returns (key, cert)."""
    key, crt, csr = os.path.join(d, name + '.key'), os.path.join(d, name + '.crt'), os.path.join(d, name + '.csr')
    make_key(key)
    ext = os.path.join(d, name + '.ext')
    with open(ext, 'w') as f:
        f.write('subjectAltName=%s\nbasicConstraints=CA:FALSE\nkeyUsage=digitalSignature,keyEncipherment\nextendedKeyUsage=serverAuth\n' % san_list(sans))
    if org is None:
        subj = '/'          # a certificate without any subject field: identified by its subjectAltName only
    else:
        subj = '/CN=%s/O=%s' % (sans[0][:60], org.replace('\\', '\\\\').replace('/', '\\/'))
    _run(['req', '-new', '-key', key, '-out', csr, '-subj', subj] + (['-utf8'] if utf8 else []))
    if expired and ca is not None:
        # `openssl x509 -not_before/-not_after` only exists from OpenSSL 3.4 on; `openssl ca -startdate/-enddate` is in every
        # version (the system openssl here is 3.0, a newer one may or may not be first on PATH).
        cad = os.path.join(d, name + '.ca')
        os.makedirs(os.path.join(cad, 'new'), exist_ok=True)
        open(os.path.join(cad, 'idx'), 'w').close()
        with open(os.path.join(cad, 'serial'), 'w') as f:
            f.write('%016X\n' % (int.from_bytes(os.urandom(7), 'big') | 1 << 56))
        cfg = os.path.join(cad, 'ca.cnf')
        with open(cfg, 'w') as f:
            f.write('[ca]\ndefault_ca=c\n[c]\ndatabase=%s/idx\nnew_certs_dir=%s/new\nserial=%s/serial\ndefault_md=sha256\npolicy=p\n'
                    'unique_subject=no\ncopy_extensions=none\n[p]\ncommonName=supplied\norganizationName=optional\n' % (cad, cad, cad))
        _run(['ca', '-batch', '-notext', '-config', cfg, '-cert', ca[1], '-keyfile', ca[0], '-in', csr, '-out', crt, '-extfile', ext,
              '-startdate', '20200101000000Z', '-enddate', '20200201000000Z'])
        return key, crt
    if expired:
        raise ValueError('expired self-signed leaves are not needed by any check')
    dates = ['-days', '30']
    if ca is None:
        _run(['x509', '-req', '-in', csr, '-signkey', key, '-out', crt, '-extfile', ext, '-sha256'] + dates)
    else:
        _run(['x509', '-req', '-in', csr, '-CA', ca[1], '-CAkey', ca[0], '-CAcreateserial', '-out', crt, '-extfile', ext, '-sha256'] + dates)
    return key, crt


def cert_info(der: bytes) -> Dict[str, object]:
    """Subject alt names / issuer CN of a DER certificate (via openssl, independent of the code under test)."""
    r = subprocess.run(['openssl', 'x509', '-inform', 'DER', '-noout', '-ext', 'subjectAltName', '-issuer', '-subject', '-enddate'],
                       input=der, capture_output=True, timeout=60)
    txt = r.stdout.decode('latin-1')
    sans = []
    for line in txt.splitlines():
        line = line.strip()
        if line.startswith(('DNS:', 'IP Address:', 'IP:')):
            for part in line.split(','):
                part = part.strip()
                if part.startswith('DNS:'):
                    sans.append(('DNS', part[4:]))
                elif part.startswith('IP Address:'):
                    sans.append(('IP', part[11:]))
    return {'sans': sans, 'text': txt}

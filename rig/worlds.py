"""Execution-mode independent scenario runner (C17): the same client scripts and the same scripted origin are run
against (a) the single-stepped local executor, (b) the single-stepped remote executor, (c) the
thread-per-connection handler, (d) the live product in each mode.  A *world* offers:

    new_client() -> Peer         connect a client to the proxy
    advance()                    let the proxy make progress (one loop iteration, or a short sleep)
    origin                       the ScriptedOrigin shared by all scenarios of the world

Scripts are causally ordered (each actor waits for what it expects), so legitimate timing differences
between modes cannot change a transcript."""
import os
import time
import socket
import struct
import threading
from typing import Any, Callable, Dict, List, Optional, Tuple

from . import conv, refcodec, gen_http as G
from .peers import Peer, Origin


class ScriptedOrigin:
    """One listening origin whose behaviour is selected by the request path (so that a single long-lived origin
    can serve every scenario, also concurrently).  Every connection is recorded: bytes read, whether the peer
    (the proxy) closed it."""

    def __init__(self, host: str = '127.0.0.2', port: int = 0) -> None:
        self.origin = Origin(host, port, backlog=128)
        self.conns: List[Dict[str, Any]] = []
        self.lock = threading.Lock()

    @property
    def hostport(self) -> bytes:
        return self.origin.hostport

    def tick(self) -> None:
        with self.lock:
            for p in self.origin.accept_all():
                self.conns.append({'peer': p, 'used': 0, 'out': [], 'tunnel': False, 'close_after': False, 'reset_after': False, 'stall': False})
            for c in self.conns:
                p: Peer = c['peer']
                if p.closed:
                    continue
                p.pump()
                if c['tunnel']:
                    new = bytes(p.rx[c['used']:])
                    if new:
                        c['used'] = len(p.rx)
                        c['out'].append(b'echo:' + new)
                elif not c['stall']:
                    buf = bytes(p.rx[c['used']:])
                    if buf.startswith(b'TUNNEL'):
                        c['tunnel'] = True
                        continue
                    try:
                        reqs, used = conv.split_requests(buf)
                    except conv.BadStream:
                        reqs, used = [], 0
                    c['used'] += used
                    for r in reqs:
                        self._answer(c, r)
                while c['out']:
                    n = p.send(c['out'][0])
                    if n < 0:
                        c['out'] = []
                        break
                    if n >= len(c['out'][0]):
                        c['out'].pop(0)
                    elif n > 0:
                        c['out'][0] = c['out'][0][n:]
                        break
                    else:
                        break
                if not c['out']:
                    if c['reset_after']:
                        p.reset_close()
                    elif c['close_after']:
                        p.close()

    def _answer(self, c: Dict[str, Any], r: Dict[str, Any]) -> None:
        path = r['target'].split(b'?')[0]
        rid = r['hd'].get(b'x-conv', b'-')
        body = b'origin|%s|%s|%s|' % (r['method'], path, rid) + r['body'][:16]
        if path.endswith(b'/chunked'):
            c['out'].append(b'HTTP/1.1 200 OK\r\nTransfer-Encoding: chunked\r\nX-Conv: %s\r\n\r\n' % rid + refcodec.enchunk(body, [5, len(body) - 5]))
        elif path.endswith(b'/close-delimited-large'):
            blob = G.coded(b'L', 300000)
            c['out'].append(b'HTTP/1.0 200 OK\r\nX-Conv: %s\r\n\r\n' % rid + blob)
            c['close_after'] = True
        elif path.endswith(b'/close-delimited'):
            c['out'].append(b'HTTP/1.0 200 OK\r\nX-Conv: %s\r\n\r\n' % rid + body)
            c['close_after'] = True
        elif path.endswith(b'/reset-mid-body'):
            c['out'].append(b'HTTP/1.1 200 OK\r\nContent-Length: 5000\r\nX-Conv: %s\r\n\r\n' % rid + body)
            c['reset_after'] = True
        elif path.endswith(b'/close-mid-body'):
            c['out'].append(b'HTTP/1.1 200 OK\r\nContent-Length: 5000\r\nX-Conv: %s\r\n\r\n' % rid + body)
            c['close_after'] = True
        elif path.endswith(b'/big'):
            blob = G.coded(b'B', 1 << 20)
            c['out'].append(b'HTTP/1.1 200 OK\r\nContent-Length: %d\r\nX-Conv: %s\r\n\r\n' % (len(blob), rid) + blob)
        elif path.endswith(b'/never'):
            c['stall'] = True
        elif path.endswith(b'/interim'):
            c['out'].append(b'HTTP/1.1 100 Continue\r\n\r\nHTTP/1.1 200 OK\r\nContent-Length: %d\r\nX-Conv: %s\r\n\r\n' % (len(body), rid) + body)
        else:
            c['out'].append(b'HTTP/1.1 200 OK\r\nContent-Length: %d\r\nX-Conv: %s\r\n\r\n' % (len(body), rid) + body)
        if r['hd'].get(b'x-behave') == b'close-after':
            c['close_after'] = True     # a complete, length-delimited answer - and then the origin hangs up

    def transcripts_for(self, conv_id: bytes) -> List[Tuple[bytes, str]]:
        """(bytes read, 'closed'|'open') of every origin connection whose traffic carries this conversation id."""
        with self.lock:
            out = []
            for c in self.conns:
                p: Peer = c['peer']
                if not p.closed:
                    p.pump()
                if conv_id in bytes(p.rx):
                    out.append((bytes(p.rx), 'closed' if (p.ended or c['close_after'] or c['reset_after']) else 'open'))
            return out

    def close(self) -> None:
        with self.lock:
            self.origin.close()


class StepWorld:
    def __init__(self, rig: Any, origin: ScriptedOrigin) -> None:
        self.rig, self.origin = rig, origin
        self.kind = 'step-' + rig.mode

    def new_client(self) -> Peer:
        return self.rig.add_client('tcp')

    def advance(self) -> None:
        self.origin.tick()
        self.origin2.tick()
        self.rig.step()
        self.origin.tick()
        self.origin2.tick()

    def idle_wait(self) -> None:
        time.sleep(0.0005)


class ThreadWorld:
    def __init__(self, rig: Any, origin: ScriptedOrigin) -> None:
        self.rig, self.origin = rig, origin
        self.kind = 'thread'

    def new_client(self) -> Peer:
        return self.rig.add_client('tcp')[0]

    def advance(self) -> None:
        self.origin.tick()
        self.origin2.tick()
        time.sleep(0.0003)

    def idle_wait(self) -> None:
        time.sleep(0.001)


class LiveWorld:
    """The live product listens on (host, port); the origin is ticked by a background thread (concurrent clients)."""

    def __init__(self, host: str, port: int, origin: ScriptedOrigin, kind: str) -> None:
        self.addr, self.origin, self.kind = (host, port), origin, kind
        self.stop = threading.Event()
        self.th = threading.Thread(target=self._pump, daemon=True)
        self.th.start()

    def _pump(self) -> None:
        while not self.stop.is_set():
            self.origin.tick()
            o2 = getattr(self, 'origin2', None)
            if o2 is not None:
                o2.tick()
            time.sleep(0.0005)

    def new_client(self) -> Peer:
        s = socket.socket(socket.AF_INET, socket.SOCK_STREAM)
        s.settimeout(10)
        s.connect(self.addr)
        return Peer(s, 'live-client')

    def advance(self) -> None:
        time.sleep(0.0005)

    def idle_wait(self) -> None:
        time.sleep(0.001)

    def close(self) -> None:
        self.stop.set()
        self.th.join(2)


class Watchdog(Exception):
    pass


def run_script(world: Any, script: List[Tuple[Any, ...]], deadline_s: float = 30.0) -> Dict[str, Any]:
    """Executes a client script.  Verbs: ('send', bytes) ('send-slow', bytes, piece) ('responses', n, methods)
    ('bytes', n) ('until', marker) ('eof',) ('close',) ('shutdown-wr',) ('reset',) ('advance', k) ('origin-sees', conv_id)."""
    from . import h11util
    c = world.new_client()
    end = time.time() + deadline_s

    def wait(pred: Callable[[], bool]) -> None:
        while True:
            c.pump()
            if pred() or c.ended:
                return
            if time.time() > end:
                raise Watchdog()
            world.advance()
    try:
        for op in script:
            k = op[0]
            if k == 'send':
                rest = op[1]
                while rest:
                    n = c.send(rest)
                    if n < 0:
                        break
                    rest = rest[n:]
                    if rest:
                        c.pump()
                        world.advance()
                        if time.time() > end:
                            raise Watchdog()
            elif k == 'send-slow':
                data, piece = op[1], op[2]
                for i in range(0, len(data), piece):
                    c.send(data[i:i + piece])
                    world.advance()
            elif k == 'responses':
                n, methods = op[1], op[2]

                def have() -> bool:
                    ms, err, _ = h11util.parse_responses(bytes(c.rx), methods, eof=False)
                    return bool(err) or sum(1 for m in ms if m['complete'] and not m.get('interim')) >= n
                wait(have)
            elif k == 'bytes':
                wait(lambda: len(c.rx) >= op[1])
            elif k == 'until':
                wait(lambda: op[1] in bytes(c.rx))
            elif k == 'eof':
                wait(lambda: c.ended)
            elif k == 'close':
                c.close()
            elif k == 'shutdown-wr':
                c.shutdown_wr()
            elif k == 'reset':
                c.reset_close()
            elif k == 'advance':
                for _ in range(op[1]):
                    world.advance()
            elif k == 'origin-sees':
                # causal ordering: continue only once the origin has read something of this conversation
                wait(lambda: bool(world.origin.transcripts_for(op[1])))
        # let closes propagate
        for _ in range(40):
            world.advance()
            if not c.closed:
                c.pump()
        return {'client': bytes(c.rx), 'client_end': 'closed' if c.ended else 'open', 'watchdog': False}
    except Watchdog:
        return {'client': bytes(c.rx), 'client_end': 'closed' if c.ended else 'open', 'watchdog': True}
    finally:
        if not c.closed:
            c.close()

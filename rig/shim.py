"""Socket-layer shim: counts, perturbs (legal kernel nondeterminism) and faults the
proxy's own socket calls.  Harness peers bypass it by calling the C-level
``_socket.socket`` methods directly (see peers.py), so every call seen here while
``active`` was made by proxy code.

Perturbations are only outcomes a kernel may legally produce:
  * send(n bytes) -> send of a prefix (short write), or BlockingIOError on a
    non-blocking socket;
  * recv(n) -> recv(k <= n);
  * (fault mode) the k-th call of a kind raises an errno that call can raise.
"""
import ssl
import sys
import errno
import ipaddress
import socket
import random
import _socket
import threading
from typing import Any, Callable, Dict, List, Optional, Tuple

_orig_send = socket.socket.send
_orig_recv = socket.socket.recv
_orig_connect = socket.socket.connect
_orig_close = socket.socket.close
_orig_ssl_send = ssl.SSLSocket.send
_orig_ssl_recv = ssl.SSLSocket.recv

raw_send = _socket.socket.send
raw_recv = _socket.socket.recv


class State:
    def __init__(self) -> None:
        self.installed = False
        self.active_threads: set = set()      # thread idents in which proxy code runs
        self.all_threads_active = False
        self.rng = random.Random(0)
        self.short_write_p = 0.0
        self.eagain_p = 0.0
        self.recv_cap: Optional[List[Optional[int]]] = None
        self.counts: Dict[str, int] = {}
        self.fault: Optional[Tuple[str, int, Any]] = None    # (kind, index, exception factory)
        self.fault_fired = 0
        self.call_index: Dict[str, int] = {}
        self.log: Optional[List[Tuple[str, int, int]]] = None
        self.bytes_sent = 0
        self.bytes_recv = 0
        self.exclude_fds: set = set()
        self.fail_nonloopback = True
        self.fault_filter: Optional[Callable[[str, Any, Any], bool]] = None

    def reset(self) -> None:
        self.short_write_p = 0.0
        self.eagain_p = 0.0
        self.recv_cap = None
        self.counts = {}
        self.fault = None
        self.fault_fired = 0
        self.call_index = {}
        self.log = None
        self.bytes_sent = 0
        self.bytes_recv = 0
        self.fault_filter = None


S = State()
_lock = threading.Lock()


def active() -> bool:
    return S.all_threads_active or threading.get_ident() in S.active_threads


def _count(name: str, n: int = 1) -> None:
    S.counts[name] = S.counts.get(name, 0) + n


def _maybe_fault(kind: str, sock: Any = None, addr: Any = None) -> None:
    flt = S.fault_filter
    if flt is not None:
        # only calls on the sockets of the connection under attack are counted and faulted (so that a fault can never
        # hit a well-behaved neighbour's own socket - that would legitimately change the neighbour's transcript)
        try:
            if not flt(kind, sock, addr):
                return
        except Exception:
            return
    idx = S.call_index.get(kind, 0)
    S.call_index[kind] = idx + 1
    f = S.fault
    if f is not None and f[0] == kind and f[1] == idx:
        S.fault_fired += 1
        _count('fault:%s' % kind)
        raise f[2]()


def _send(self: socket.socket, data: Any, *a: Any) -> int:
    if not active() or self.fileno() in S.exclude_fds:
        return _orig_send(self, data, *a)
    with _lock:
        _count('send')
        _maybe_fault('send', self)
        n = len(data)
        nonblocking = self.gettimeout() == 0.0
        r = S.rng.random()
        if nonblocking and n > 0 and r < S.eagain_p:
            _count('send:eagain-injected')
            raise BlockingIOError(errno.EAGAIN, 'Resource temporarily unavailable (injected)')
        if n > 1 and r < S.eagain_p + S.short_write_p:
            k = S.rng.randint(1, n - 1)
            if S.rng.random() < 0.3:
                k = min(k, S.rng.randint(1, 7))
            _count('send:short-injected')
            data = memoryview(data)[:k]
    try:
        sent = _orig_send(self, data, *a)
    except BlockingIOError:
        _count('send:eagain-real')
        raise
    if sent < n:
        _count('send:short')
    S.bytes_sent += sent
    return sent


def _recv(self: socket.socket, bufsize: int, *a: Any) -> bytes:
    if not active() or self.fileno() in S.exclude_fds:
        return _orig_recv(self, bufsize, *a)
    with _lock:
        _count('recv')
        _maybe_fault('recv', self)
        if S.recv_cap:
            cap = S.rng.choice(S.recv_cap)
            if cap is not None and cap < bufsize:
                bufsize = cap
                _count('recv:capped')
    data = _orig_recv(self, bufsize, *a)
    S.bytes_recv += len(data)
    if not data:
        _count('recv:eof')
    return data


def _connect(self: socket.socket, addr: Any) -> None:
    if not active():
        return _orig_connect(self, addr)
    with _lock:
        _count('connect')
        _maybe_fault('connect', self, addr)
    if S.fail_nonloopback and isinstance(addr, tuple) and len(addr) >= 2 and isinstance(addr[0], str):
        try:
            if not ipaddress.ip_address(addr[0]).is_loopback and not addr[0].startswith('::ffff:127.'):
                # the sandbox has no network: make the inevitable failure immediate instead of a connect timeout.
                # The real connect() raises its audit event before the syscall; observers of the attempted
                # address (rig.audit, C14) must see this attempt exactly as they would see the real one.
                _count('connect:unreachable')
                sys.audit('socket.connect', self, addr)
                raise OSError(errno.ENETUNREACH, 'Network is unreachable (sandbox has no network)')
        except ValueError:
            pass
    return _orig_connect(self, addr)


def _close(self: socket.socket) -> None:
    if active():
        _count('close')
    return _orig_close(self)


def _ssl_send(self: ssl.SSLSocket, data: Any, flags: int = 0) -> int:
    if not active():
        return _orig_ssl_send(self, data, flags)
    with _lock:
        _count('ssl_send')
        n = len(data)
        r = S.rng.random()
        if self.gettimeout() == 0.0 and n > 0 and r < S.eagain_p:
            _count('ssl_send:wantwrite-injected')
            raise ssl.SSLWantWriteError(ssl.SSL_ERROR_WANT_WRITE, 'injected')
    return _orig_ssl_send(self, data, flags)


def install() -> None:
    if S.installed:
        return
    socket.socket.send = _send          # type: ignore[method-assign]
    socket.socket.recv = _recv          # type: ignore[method-assign]
    socket.socket.connect = _connect    # type: ignore[method-assign]
    socket.socket.close = _close        # type: ignore[method-assign]
    ssl.SSLSocket.send = _ssl_send      # type: ignore[method-assign]
    S.installed = True


def uninstall() -> None:
    if not S.installed:
        return
    socket.socket.send = _orig_send     # type: ignore[method-assign]
    socket.socket.recv = _orig_recv     # type: ignore[method-assign]
    socket.socket.connect = _orig_connect   # type: ignore[method-assign]
    socket.socket.close = _orig_close   # type: ignore[method-assign]
    ssl.SSLSocket.send = _orig_ssl_send     # type: ignore[method-assign]
    S.installed = False


# errnos a real socket can raise at each call site
RECV_FAULTS: Dict[str, Callable[[], BaseException]] = {
    'ECONNRESET': lambda: ConnectionResetError(errno.ECONNRESET, 'Connection reset by peer (injected)'),
    'ETIMEDOUT': lambda: TimeoutError(errno.ETIMEDOUT, 'Connection timed out (injected)'),
    'EHOSTUNREACH': lambda: OSError(errno.EHOSTUNREACH, 'No route to host (injected)'),
}
SEND_FAULTS: Dict[str, Callable[[], BaseException]] = {
    'EPIPE': lambda: BrokenPipeError(errno.EPIPE, 'Broken pipe (injected)'),
    'ECONNRESET': lambda: ConnectionResetError(errno.ECONNRESET, 'Connection reset by peer (injected)'),
}
CONNECT_FAULTS: Dict[str, Callable[[], BaseException]] = {
    'ECONNREFUSED': lambda: ConnectionRefusedError(errno.ECONNREFUSED, 'Connection refused (injected)'),
    'ETIMEDOUT': lambda: socket.timeout('timed out (injected)'),
    'ENETUNREACH': lambda: OSError(errno.ENETUNREACH, 'Network is unreachable (injected)'),
    'EHOSTUNREACH': lambda: OSError(errno.EHOSTUNREACH, 'No route to host (injected)'),
}
FAULTS = {'recv': RECV_FAULTS, 'send': SEND_FAULTS, 'connect': CONNECT_FAULTS}


def set_fault(kind: str, index: int, name: str) -> None:
    S.fault = (kind, index, FAULTS[kind][name])
    S.fault_fired = 0

"""Secondary monitors: stream differ, handler state sampler, structural invariants."""
from typing import Any, Dict, List, Optional, Tuple


def diff_streams(expected: bytes, got: bytes) -> Optional[Dict[str, Any]]:
    """None when equal; otherwise kind + first bad offset.  Kinds: missing-tail (got is a
    proper prefix), extra-bytes (expected is a proper prefix), gap, duplicate-or-reorder, corruption."""
    if expected == got:
        return None
    n = min(len(expected), len(got))
    off = next((i for i in range(n) if expected[i] != got[i]), n)
    if off == len(got) and len(got) < len(expected):
        return {'kind': 'missing-tail', 'offset': off, 'expected_len': len(expected), 'got_len': len(got)}
    if off == len(expected) and len(got) > len(expected):
        return {'kind': 'extra-bytes', 'offset': off, 'expected_len': len(expected), 'got_len': len(got),
                'extra_head': got[off:off + 64]}
    probe = got[off:off + 16]
    kind = 'corruption'
    if len(probe) >= 8:
        pos = expected.find(probe)
        if pos > off:
            kind = 'gap'
        elif 0 <= pos < off:
            kind = 'duplicate-or-reorder'
    return {'kind': kind, 'offset': off, 'expected_len': len(expected), 'got_len': len(got),
            'expected_at': expected[off:off + 32], 'got_at': got[off:off + 32]}


def is_prefix(expected: bytes, got: bytes) -> bool:
    return len(got) <= len(expected) and expected[:len(got)] == got


def sample_state(work: Any) -> Tuple[Any, ...]:
    """Abstract state of one HttpProtocolHandler work (secondary: evidence of state diversity)."""
    try:
        plugin = work.plugin
        up = getattr(plugin, 'upstream', None) if plugin is not None else None
        if up is None:
            ups = 'none'
            upbuf = False
        else:
            ups = 'closed' if up.closed else 'open'
            upbuf = up.has_buffer()
        return (
            int(work.request.state), type(plugin).__name__ if plugin is not None else None,
            bool(work.must_flush_before_shutdown), bool(work.reads_teared), bool(work.writes_teared),
            bool(work.work.has_buffer()), ups, bool(upbuf),
        )
    except Exception as e:       # a renamed attribute must not break the deciding oracle
        return ('unsampled', type(e).__name__)


def client_buffer_depth(work: Any) -> int:
    try:
        return len(work.work.buffer)
    except Exception:
        return -1


def structural_violations(rig: Any) -> List[str]:
    """Invariants checked between iterations (where the loop holds no half-updated state).
    Diagnostics except where a property states them (C10 at end of connection)."""
    out: List[str] = []
    ex = rig.ex
    for wid, w in ex.works.items():
        try:
            conn = w.work
            if conn._num_buffer != len(conn.buffer):
                out.append('client _num_buffer=%d != len(buffer)=%d' % (conn._num_buffer, len(conn.buffer)))
            up = getattr(w.plugin, 'upstream', None) if w.plugin is not None else None
            if up is not None and up._num_buffer != len(up.buffer):
                out.append('upstream _num_buffer=%d != len(buffer)=%d' % (up._num_buffer, len(up.buffer)))
        except Exception:
            pass
    extra = set(ex.registered_events_by_work_ids.keys()) - set(ex.works.keys())
    if extra:
        out.append('registered_events_by_work_ids has ids without works: %s' % sorted(extra))
    return out


# ---- method monitor: exceptions escaping a work's handle_events (swallowed by the executor) ----
task_exceptions: List[Tuple[str, str]] = []
_handle_events_wrapped = False


def watch_task_exceptions() -> List[Tuple[str, str]]:
    """Wraps HttpProtocolHandler.handle_events once; every exception it lets escape (which the
    executor turns into a silent teardown of that work) is recorded as (type@function, traceback)."""
    global _handle_events_wrapped
    import traceback
    from proxy.http.handler import HttpProtocolHandler
    if not _handle_events_wrapped:
        orig = HttpProtocolHandler.handle_events

        async def handle_events(self: Any, readables: Any, writables: Any) -> bool:
            try:
                return await orig(self, readables, writables)
            except Exception as e:
                tb = traceback.format_exc()
                fn = '?'
                for line in tb.splitlines():
                    line = line.strip()
                    if line.startswith('File "') and '/proxy/' in line and ', in ' in line:
                        fn = line.rsplit(', in ', 1)[1]
                task_exceptions.append(('%s@%s' % (type(e).__name__, fn), tb[-1500:]))
                raise
        HttpProtocolHandler.handle_events = handle_events      # type: ignore[method-assign]
        _handle_events_wrapped = True
    del task_exceptions[:]
    return task_exceptions

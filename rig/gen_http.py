"""Generators of well-formed HTTP/1.x messages with known ground truth.

Every generated message carries its abstract content (start line fields, header
list, decoded body) and a *zone map* naming the syntactic element each byte
belongs to, so that a failing cut position can be reported structurally
("between chunk data and its CRLF") instead of by offset.
"""
import random
from typing import Any, Dict, List, Optional, Tuple

CRLF = b'\r\n'
TOKEN_CHARS = "abcdefghijklmnopqrstuvwxyzABCDEFGHIJKLMNOPQRSTUVWXYZ0123456789-_"
METHODS = [b'GET', b'POST', b'PUT', b'DELETE', b'OPTIONS', b'PATCH', b'HEAD', b'PURGE', b'M-SEARCH']
BODY_METHODS = [b'POST', b'PUT', b'PATCH', b'DELETE', b'OPTIONS', b'PURGE']


class Msg:
    def __init__(self) -> None:
        self.kind = 'request'
        self.method: bytes = b''
        self.target: bytes = b''
        self.version: bytes = b'HTTP/1.1'
        self.code: int = 0
        self.reason: bytes = b''
        self.headers: List[Tuple[bytes, bytes]] = []      # semantic (name, trimmed value)
        self.header_lines: List[bytes] = []                # as emitted
        self.body: bytes = b''
        self.framing = 'none'       # none | cl | chunked | close
        self.chunk_sizes: List[int] = []
        self.has_ext = False
        self.trailers: List[Tuple[bytes, bytes]] = []
        self.raw: bytes = b''
        self.zones: List[Tuple[int, int, str]] = []

    def zone_at(self, off: int) -> str:
        """Name of the boundary *before* byte `off` (i.e. a cut at off)."""
        if off >= len(self.raw):
            return 'end'
        for (s, e, name) in self.zones:
            if s <= off < e:
                if off == s:
                    prev = self.zone_name_of(off - 1) if off > 0 else 'start'
                    return '%s|%s' % (prev, name)
                return 'in:' + name
        return 'unknown'

    def zone_name_of(self, off: int) -> str:
        for (s, e, name) in self.zones:
            if s <= off < e:
                return name
        return 'unknown'

    def describe(self) -> Dict[str, Any]:
        d: Dict[str, Any] = {'kind': self.kind, 'framing': self.framing, 'len': len(self.raw),
                             'body_len': len(self.body), 'nheaders': len(self.headers)}
        if self.framing == 'chunked':
            d['chunks'] = self.chunk_sizes[:12]
            d['ext'] = self.has_ext
            d['trailers'] = len(self.trailers)
        return d


def token(rng: random.Random, lo: int = 1, hi: int = 10) -> bytes:
    return ''.join(rng.choice(TOKEN_CHARS) for _ in range(rng.randint(lo, hi))).encode()


def header_value(rng: random.Random) -> bytes:
    kind = rng.random()
    if kind < 0.1:
        return b''
    alphabet = "abcdefghijklmnopqrstuvwxyzABCDEFGHIJKLMNOPQRSTUVWXYZ0123456789-_.~!$&'()*+,;=:@/?%[]\" "
    s = ''.join(rng.choice(alphabet) for _ in range(rng.randint(1, 40))).strip()
    if kind > 0.9:
        s += ' \xe9\xfc'      # obs-text
    return s.encode('latin-1')


def body_bytes(rng: random.Random, n: int, style: Optional[str] = None) -> bytes:
    style = style or rng.choice(['text', 'binary', 'all256', 'crlfy', 'coded', 'coded', 'gzlike'])
    if n == 0:
        return b''
    if style == 'gzlike':
        # content that is itself a compressed stream (a .gz / .tgz file): starts with the gzip magic
        import gzip as _gz
        z = _gz.compress(coded(b'Z', max(n, 64)), mtime=0)
        return (z + coded(b'z', n))[:n]
    if style == 'text':
        return (b'The quick brown fox jumps over the lazy dog. ' * (n // 45 + 1))[:n]
    if style == 'all256':
        return (bytes(range(256)) * (n // 256 + 1))[:n]
    if style == 'crlfy':
        # bodies that look like framing: CRLFs, chunk-size lines, header lines
        unit = b'\r\n0\r\n\r\nHTTP/1.1 200 OK\r\nContent-Length: 5\r\n\r\n5\r\n'
        return (unit * (n // len(unit) + 1))[:n]
    if style == 'coded':
        return coded(b'B', n)
    blk = bytes(rng.getrandbits(8) for _ in range(min(n, 4096)))
    return (blk * (n // len(blk) + 1))[:n]


def coded(stream_id: bytes, n: int, start: int = 0) -> bytes:
    """Position-coded payload: 8-byte blocks `id(1) '#' counter(6 hex)`."""
    out = bytearray()
    i = start
    while len(out) < n:
        out += stream_id[:1] + b'%06x#' % (i & 0xffffff)
        i += 1
    return bytes(out[:n])


def split_sizes(rng: random.Random, n: int, maxparts: int = 6) -> List[int]:
    if n == 0:
        return []
    k = rng.randint(1, min(maxparts, n))
    cuts = sorted(rng.sample(range(1, n), k - 1)) if k > 1 else []
    pts = [0] + cuts + [n]
    return [pts[i + 1] - pts[i] for i in range(len(pts) - 1)]


def _emit_headers(rng: random.Random, m: Msg, headers: List[Tuple[bytes, bytes]], plain: bool) -> None:
    pos = len(m.raw)
    for (k, v) in headers:
        if plain:
            line = k + b': ' + v
        else:
            ows1 = rng.choice([b'', b' ', b' ', b'  ', b'\t'])
            ows2 = rng.choice([b'', b'', b' ', b'\t'])
            line = k + b':' + ows1 + v + ows2
        m.header_lines.append(line)
        m.zones.append((pos, pos + len(line), 'header-line'))
        pos += len(line)
        m.zones.append((pos, pos + 2, 'header-CRLF'))
        pos += 2
        m.raw += line + CRLF
    m.zones.append((pos, pos + 2, 'blank-line'))
    m.raw += CRLF


def _rand_case(rng: random.Random, name: bytes) -> bytes:
    mode = rng.randint(0, 3)
    if mode == 0:
        return name
    if mode == 1:
        return name.lower()
    if mode == 2:
        return name.upper()
    return bytes(c ^ 0x20 if (65 <= c <= 90 or 97 <= c <= 122) and rng.random() < 0.5 else c for c in name)


def _emit_body(rng: random.Random, m: Msg, ext: bool, trailers: bool) -> None:
    pos = len(m.raw)
    if m.framing in ('cl', 'close'):
        if m.body:
            m.zones.append((pos, pos + len(m.body), 'body'))
            m.raw += m.body
        return
    if m.framing != 'chunked':
        return
    off = 0
    for sz in m.chunk_sizes:
        line = (b'%x' % sz) if rng.random() < 0.7 else (b'%X' % sz)
        if rng.random() < 0.15:
            line = b'0' * rng.randint(1, 3) + line
        if ext and rng.random() < 0.7:
            if rng.random() < 0.08:
                # a valid but very long extension: the chunk-size line alone exceeds common buffer and line-length limits
                line += b';sig=' + b'a' * rng.choice([300, 4090, 4097, 5005, 9000])
            else:
                line += rng.choice([b';x=1', b';name="quoted; value"', b';flag', b' ; a=b'])
            m.has_ext = True
        m.zones.append((pos, pos + len(line), 'chunk-size'))
        pos += len(line)
        m.zones.append((pos, pos + 2, 'chunk-size-CRLF'))
        pos += 2
        m.zones.append((pos, pos + sz, 'chunk-data'))
        pos += sz
        m.zones.append((pos, pos + 2, 'chunk-data-CRLF'))
        pos += 2
        m.raw += line + CRLF + m.body[off:off + sz] + CRLF
        off += sz
    last = b'0' if rng.random() < 0.8 else b'000'
    if ext and rng.random() < 0.3:
        last += b';last=1'
        m.has_ext = True
    m.zones.append((pos, pos + len(last), 'last-chunk-size'))
    pos += len(last)
    m.zones.append((pos, pos + 2, 'last-chunk-CRLF'))
    pos += 2
    m.raw += last + CRLF
    if trailers:
        for _ in range(rng.randint(1, 2)):
            k, v = b'X-Trailer-' + token(rng, 1, 4), token(rng, 1, 8)
            m.trailers.append((k, v))
            line = k + b': ' + v
            m.zones.append((pos, pos + len(line) + 2, 'trailer-line'))
            pos += len(line) + 2
            m.raw += line + CRLF
    m.zones.append((pos, pos + 2, 'final-CRLF'))
    m.raw += CRLF


def extra_headers(rng: random.Random, n: int, reserved: List[bytes]) -> List[Tuple[bytes, bytes]]:
    seen = {r.lower() for r in reserved}
    out: List[Tuple[bytes, bytes]] = []
    pool = [b'Accept', b'User-Agent', b'X-Custom', b'Cookie', b'Referer', b'Accept-Encoding', b'X-Req-Id',
            b'Authorization', b'Cache-Control', b'Pragma', b'X-Forwarded-For', b'If-None-Match']
    # end-to-end fields whose names merely look like hop-by-hop / framing fields (prefix, suffix or substring of one)
    lookalikes = [b'Proxy-Client-IP', b'Proxy-Ticket', b'Proxy-Authorization-Info', b'X-Proxy-Authorization', b'Proxy-Connection-Id',
                  b'Connection-Info', b'Via-Cache', b'X-Via', b'Host-Override', b'X-Host', b'Content-Length-Hint', b'X-Content-Length',
                  b'Transfer-Encoding-Hint', b'Keep-Alive-Hint', b'Upgrade-Insecure-Requests', b'Proxy', b'Proxy-']
    while len(out) < n:
        r = rng.random()
        name = rng.choice(pool) if r < 0.4 else rng.choice(lookalikes) if r < 0.6 else b'X-' + token(rng, 1, 12)
        if name.lower() in seen:
            continue
        seen.add(name.lower())
        out.append((_rand_case(rng, name), header_value(rng)))
    return out


def gen_request(rng: random.Random, *, target: bytes, host_header: Optional[bytes], method: Optional[bytes] = None,
                framing: Optional[str] = None, body: Optional[bytes] = None, nheaders: Optional[int] = None,
                version: bytes = b'HTTP/1.1', ext: bool = False, trailers: bool = False, plain: bool = False,
                more_headers: Optional[List[Tuple[bytes, bytes]]] = None,
                chunk_sizes: Optional[List[int]] = None) -> Msg:
    m = Msg()
    m.kind = 'request'
    framing = framing or rng.choice(['none', 'cl', 'chunked'])
    if method is None:
        method = rng.choice(BODY_METHODS if framing != 'none' else METHODS)
    m.method, m.target, m.version, m.framing = method, target, version, framing
    if body is None:
        body = b'' if framing == 'none' else body_bytes(rng, rng.choice([0, 1, 2, 5, 17, 64, 300, 1500]))
    if framing == 'none':
        body = b''
    m.body = body
    line = method + b' ' + target + b' ' + version
    m.raw = line + CRLF
    m.zones.append((0, len(line), 'start-line'))
    m.zones.append((len(line), len(line) + 2, 'start-line-CRLF'))
    hs: List[Tuple[bytes, bytes]] = []
    if host_header is not None:
        hs.append((_rand_case(rng, b'Host') if not plain else b'Host', host_header))
    reserved = [b'host', b'content-length', b'transfer-encoding', b'connection', b'via', b'proxy-authorization',
                b'proxy-connection', b'upgrade', b'expect', b'te', b'trailer', b'keep-alive']
    n = rng.randint(0, 6) if nheaders is None else nheaders
    hs += extra_headers(rng, n, reserved + [h[0] for h in (more_headers or [])])
    hs += list(more_headers or [])
    if framing == 'cl':
        hs.append((_rand_case(rng, b'Content-Length') if not plain else b'Content-Length', b'%d' % len(body)))
    elif framing == 'chunked':
        hs.append((_rand_case(rng, b'Transfer-Encoding') if not plain else b'Transfer-Encoding',
                   rng.choice([b'chunked', b'chunked', b'Chunked']) if not plain else b'chunked'))
        m.chunk_sizes = chunk_sizes if chunk_sizes is not None else split_sizes(rng, len(body))
    if not plain:
        first = hs[:1] if host_header is not None else []
        rest = hs[len(first):]
        rng.shuffle(rest)
        hs = first + rest
    m.headers = [(k, v.strip(b' \t')) for (k, v) in hs]
    _emit_headers(rng, m, hs, plain)
    _emit_body(rng, m, ext, trailers)
    return m


REASONS = {200: b'OK', 201: b'Created', 404: b'Not Found', 500: b'Internal Server Error', 302: b'Found',
           206: b'Partial Content', 403: b'Forbidden', 418: b"I'm a teapot"}


def gen_response(rng: random.Random, *, framing: Optional[str] = None, body: Optional[bytes] = None,
                 code: Optional[int] = None, nheaders: Optional[int] = None, version: bytes = b'HTTP/1.1',
                 ext: bool = False, trailers: bool = False, plain: bool = False,
                 more_headers: Optional[List[Tuple[bytes, bytes]]] = None,
                 chunk_sizes: Optional[List[int]] = None, headerless: bool = False) -> Msg:
    m = Msg()
    m.kind = 'response'
    framing = framing or rng.choice(['cl', 'chunked'])
    code = code or rng.choice(list(REASONS))
    m.code, m.reason, m.version, m.framing = code, REASONS.get(code, b'Whatever'), version, framing
    if body is None:
        body = body_bytes(rng, rng.choice([0, 1, 2, 5, 17, 64, 300, 1500]))
    m.body = body
    line = version + b' ' + (b'%d' % code) + b' ' + m.reason
    m.raw = line + CRLF
    m.zones.append((0, len(line), 'start-line'))
    m.zones.append((len(line), len(line) + 2, 'start-line-CRLF'))
    if headerless:
        m.framing = 'none'
        m.body = b''
        m.zones.append((len(m.raw), len(m.raw) + 2, 'blank-line'))
        m.raw += CRLF
        return m
    hs: List[Tuple[bytes, bytes]] = []
    reserved = [b'content-length', b'transfer-encoding', b'connection', b'upgrade', b'trailer', b'keep-alive']
    n = rng.randint(0, 6) if nheaders is None else nheaders
    pool = [b'Server', b'Date', b'Content-Type', b'ETag', b'Set-Cookie', b'X-Origin', b'Cache-Control', b'Vary']
    seen = {r for r in reserved} | {h[0].lower() for h in (more_headers or [])}
    while len(hs) < n:
        name = rng.choice(pool) if rng.random() < 0.6 else b'X-' + token(rng, 1, 12)
        if name.lower() in seen:
            continue
        seen.add(name.lower())
        hs.append((_rand_case(rng, name) if not plain else name, header_value(rng)))
    hs += list(more_headers or [])
    if framing == 'cl':
        hs.append((_rand_case(rng, b'Content-Length') if not plain else b'Content-Length', b'%d' % len(body)))
    elif framing == 'chunked':
        hs.append((_rand_case(rng, b'Transfer-Encoding') if not plain else b'Transfer-Encoding', b'chunked'))
        m.chunk_sizes = chunk_sizes if chunk_sizes is not None else split_sizes(rng, len(body))
    elif framing == 'close':
        hs.append((b'Connection', b'close'))
    if not plain:
        rng.shuffle(hs)
    m.headers = [(k, v.strip(b' \t')) for (k, v) in hs]
    _emit_headers(rng, m, hs, plain)
    _emit_body(rng, m, ext, trailers)
    return m


def cut_at(data: bytes, cuts: List[int]) -> List[bytes]:
    pts = [0] + sorted(set(c for c in cuts if 0 < c < len(data))) + [len(data)]
    return [data[pts[i]:pts[i + 1]] for i in range(len(pts) - 1)]


def random_cuts(rng: random.Random, n: int, k: int) -> List[int]:
    if n <= 1:
        return []
    k = min(k, n - 1)
    return sorted(rng.sample(range(1, n), k))


def boundary_cuts(m: Msg) -> List[int]:
    """Offsets at every zone boundary and one byte either side."""
    out = set()
    for (s, e, _) in m.zones:
        for x in (s - 1, s, s + 1, e - 1, e, e + 1):
            if 0 < x < len(m.raw):
                out.add(x)
    return sorted(out)

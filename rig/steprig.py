"""In-process, single-stepped execution of the product's real executor loop.

The real ``LocalFdExecutor`` / ``RemoteFdExecutor`` (with the real flags, real
plugins, real HttpProtocolHandler works) is advanced one iteration at a time by
running the product's own coroutine ``_run_once()`` on the executor's own asyncio
loop.  No product constant is modified: the only substitution is the selector
*instance*, a DefaultSelector subclass whose select() polls with timeout 0.
"""
import os
import time
import signal
import socket
import asyncio
import selectors
import threading
import traceback
import multiprocessing
from multiprocessing.reduction import send_handle
from typing import Any, Callable, Dict, Iterable, List, Optional, Tuple

from . import env, shim, audit
from .peers import Peer, Origin, open_fds

from proxy.common.flag import FlagParser                      # noqa: E402
from proxy.common.backports import NonBlockingQueue           # noqa: E402
from proxy.core.work.fd import LocalFdExecutor, RemoteFdExecutor   # noqa: E402


class PollSelector(selectors.DefaultSelector):      # type: ignore[misc,valid-type]
    """The kernel's readiness report, never waiting: idle iterations cost microseconds
    instead of DEFAULT_SELECTOR_SELECT_TIMEOUT while the loop's arithmetic is untouched."""
    hold = 0.0

    def select(self, timeout: Optional[float] = None) -> List[Tuple[selectors.SelectorKey, int]]:
        return super().select(self.hold)


class LoopDied(Exception):
    def __init__(self, exc: BaseException, tb: str) -> None:
        super().__init__(repr(exc))
        self.exc = exc
        self.tb = tb

    def where(self) -> str:
        """'<ExceptionType>@<innermost proxy function>' — the mechanism key of a loop death."""
        fn = '?'
        for line in self.tb.splitlines():
            line = line.strip()
            if line.startswith('File "') and '/proxy/' in line and ', in ' in line:
                fn = line.rsplit(', in ', 1)[1]
        if getattr(self, 'stalled', False):
            return 'STALL@%s' % fn
        return '%s@%s' % (type(self.exc).__name__, fn)


class _Stalled(BaseException):
    """Raised by the SIGALRM watchdog inside a loop iteration that does not return."""


STALL_LIMIT_S = 6.0     # one loop iteration never legitimately takes this long in the rigs (no black-holed connects)
STALL_BLOCKED_S = 5.0   # ... asleep inside a system call (a blocking handshake, a blocking connect)
STALL_CPU_S = 6.0       # ... or on a processor (spinning)
STALL_WALL_CAP_S = 180.0
_watch: Dict[str, Any] = {'t0': 0.0, 's0': None, 'rearms': 0}


def _sched() -> Optional[Tuple[float, float]]:
    """(seconds on a processor, seconds runnable but waiting for one) of the calling thread, from the kernel's scheduler
    statistics; None where they are not available."""
    try:
        with open('/proc/thread-self/schedstat') as f:
            a, b = f.read().split()[:2]
        return int(a) / 1e9, int(b) / 1e9
    except Exception:
        return None


def _on_alarm(signum: int, frame: Any) -> None:
    # The deadline is wall-clock; the verdict must not be.  An iteration that is neither asleep in a system call nor burning a
    # processor is merely waiting its turn on a loaded machine: the deadline is extended.  (Time asleep = wall - on-processor
    # - runnable-and-waiting; a blocked handshake sleeps, a runaway loop is on a processor, a starved process is neither.)
    s0, s1 = _watch['s0'], _sched()
    if s0 is not None and s1 is not None:
        wall = time.monotonic() - _watch['t0']
        on_cpu = s1[0] - s0[0]
        asleep = wall - on_cpu - (s1[1] - s0[1])
        if asleep < STALL_BLOCKED_S and on_cpu < STALL_CPU_S and wall < STALL_WALL_CAP_S:
            _watch['rearms'] += 1
            signal.setitimer(signal.ITIMER_REAL, STALL_LIMIT_S / 2)
            return
    raise _Stalled()

_flags_cache: Dict[str, Any] = {}


def make_flags(args: List[str], plugins: Optional[List[Any]] = None, cache_key: Optional[str] = None, **opts: Any) -> Any:
    """Real flags through the product's own FlagParser (plugins loaded as the product loads them)."""
    key = cache_key
    if key is not None and key in _flags_cache:
        return _flags_cache[key]
    base = ['--threaded' if opts.pop('threaded', False) else '--threadless', '--num-workers', '1', '--num-acceptors', '1',
            '--log-level', 'CRITICAL']
    if plugins is not None:
        opts['plugins'] = plugins
    flags = FlagParser.initialize(base + list(args), **opts)
    if key is not None:
        _flags_cache[key] = flags
    return flags


class StepRig:
    def __init__(self, flags: Any, mode: str = 'local') -> None:
        self.flags = flags
        self.mode = mode
        self.dead: Optional[LoopDied] = None
        self.iterations = 0
        self.idle_streak = 0
        self.audit_log: List[Tuple[str, Any]] = []
        self.peers: List[Peer] = []
        self.origins: List[Origin] = []
        self._tcp_listener: Optional[socket.socket] = None
        self._pipe: Optional[Tuple[Any, Any]] = None
        shim.install()
        self.sel = PollSelector()
        evq = None
        if getattr(flags, 'enable_events', False):
            # deployments with the event bus on (--enable-events, --enable-dashboard): works publish into a queue nobody
            # drains here (an in-process queue.Queue; the bus itself is C18's subject)
            import queue as _queue
            from proxy.core.event import EventQueue
            evq = EventQueue(_queue.Queue())        # type: ignore[arg-type]
        self.event_queue = evq
        if mode == 'local':
            self.ex: Any = LocalFdExecutor(iid='1', work_queue=NonBlockingQueue(), flags=flags, event_queue=evq)
        elif mode == 'remote':
            a, b = multiprocessing.Pipe()
            self._pipe = (a, b)
            self.ex = RemoteFdExecutor(iid='1', work_queue=b, flags=flags, event_queue=evq)
        else:
            raise ValueError(mode)
        shim.S.counts = {}
        self.ex.selector = self.sel
        if mode == 'remote':
            self._own_loop = asyncio.new_event_loop()
            self.ex._loop = self._own_loop       # RemoteFdExecutor would fetch the policy's loop
            wq = self.ex.work_queue_fileno()
            self.sel.register(wq, selectors.EVENT_READ, data=wq)      # as Threadless.run() does
        self.loop = self.ex.loop
        self._sig_prev = self._activity_sig()
        self.step()     # warm-up: asyncio creates its self-pipe / epoll lazily
        self.fd_baseline = open_fds()

    # ---- executor access -------------------------------------------------
    @property
    def works(self) -> Dict[int, Any]:
        return self.ex.works

    def work_objs(self) -> List[Any]:
        return list(self.ex.works.values())

    def _activity_sig(self) -> Tuple[Any, ...]:
        c = shim.S.counts
        return (c.get('send', 0), c.get('recv', 0), c.get('connect', 0), c.get('close', 0),
                tuple(sorted(self.ex.works.keys())) if hasattr(self, 'ex') else ())

    # ---- stepping --------------------------------------------------------
    def step(self, n: int = 1) -> None:
        if self.dead is not None:
            raise self.dead
        ident = threading.get_ident()
        shim.S.active_threads.add(ident)
        watchdog = threading.current_thread() is threading.main_thread()
        try:
            for _ in range(n):
                try:
                    if watchdog:
                        old = signal.signal(signal.SIGALRM, _on_alarm)
                        now = time.monotonic()
                        if _watch['s0'] is None or now - _watch['t0'] > 0.25:
                            # (a snapshot at most a quarter of a second old is baseline enough for thresholds of 5-6 s and
                            # keeps /proc reads off the per-iteration path)
                            _watch['t0'], _watch['s0'] = now, _sched()
                        signal.setitimer(signal.ITIMER_REAL, STALL_LIMIT_S)
                    try:
                        self.loop.run_until_complete(self.ex._run_once())
                    finally:
                        if watchdog:
                            signal.setitimer(signal.ITIMER_REAL, 0)
                            signal.signal(signal.SIGALRM, old)
                except _Stalled:
                    # the iteration did not come back: the executor is stuck inside one work's handler
                    tb = traceback.format_exc()
                    self.dead = LoopDied(RuntimeError('iteration exceeded %.0fs' % STALL_LIMIT_S), tb)
                    self.dead.stalled = True      # type: ignore[attr-defined]
                    raise self.dead
                except Exception as e:      # an exception escaping the loop body = the executor is gone
                    self.dead = LoopDied(e, traceback.format_exc())
                    raise self.dead
                self.iterations += 1
                sig = self._activity_sig()
                if sig == self._sig_prev:
                    self.idle_streak += 1
                else:
                    self.idle_streak = 0
                    self._sig_prev = sig
        finally:
            shim.S.active_threads.discard(ident)

    def run_forever_steps(self, n: int, before_iteration: Optional[Callable[[int], None]] = None) -> None:
        """Drive the product's own _run_forever() (real reaper cadence) for n iterations."""
        if self.dead is not None:
            raise self.dead
        real = self.ex._run_once
        count = {'n': 0}

        class _Stop(Exception):
            pass

        async def shim_once() -> bool:
            if count['n'] >= n:
                raise _Stop()
            if before_iteration is not None:
                shim.S.active_threads.discard(ident)
                try:
                    before_iteration(count['n'])
                finally:
                    shim.S.active_threads.add(ident)
            count['n'] += 1
            self.iterations += 1
            return await real()

        ident = threading.get_ident()
        shim.S.active_threads.add(ident)
        self.ex._run_once = shim_once       # instance-level; the class is untouched
        try:
            try:
                self.loop.run_until_complete(self._forever_wrapper())
            except _Stop:
                pass
            except Exception as e:
                self.dead = LoopDied(e, traceback.format_exc())
                raise self.dead
        finally:
            del self.ex._run_once
            shim.S.active_threads.discard(ident)
            # _run_forever() calls loop.stop() in its finally, so the loop leaves before run_until_complete's own done
            # callback ran; that stale callback would stop the NEXT run_until_complete (step()) before its future completes.
            # Drain the ready queue once so stepping can continue after a _run_forever drive.
            self.loop.call_soon(self.loop.stop)
            self.loop.run_forever()

    async def _forever_wrapper(self) -> None:
        # _run_forever() ends with loop.stop() in its finally; harmless under run_until_complete
        await self.ex._run_forever()

    def settle(self, pump: Iterable[Peer] = (), quiet: int = 6, max_iter: int = 3000, grace: float = 0.0) -> int:
        """Iterate until nothing moved for `quiet` consecutive iterations (peers in `pump` are drained)."""
        it = 0
        pump = list(pump)
        deadline = None
        while it < max_iter:
            moved = 0
            for p in pump:
                moved += p.pump()
            self.step()
            it += 1
            if moved:
                self.idle_streak = 0
            if self.idle_streak >= quiet and not moved:
                if grace > 0:
                    if deadline is None:
                        deadline = time.time() + grace
                    if time.time() < deadline:
                        time.sleep(0.002)
                        continue
                break
            elif self.idle_streak < quiet:
                deadline = None
        for p in pump:
            p.pump()
        return it

    def until(self, pred: Callable[[], bool], pump: Iterable[Peer] = (), idle_timeout: float = 1.0,
              max_iter: int = 5000000, max_stall: float = 8.0, max_wall: float = 40.0) -> bool:
        """Iterate (draining `pump`) until pred() holds.  Gives up only after `idle_timeout` seconds of
        wall-clock time during which neither the proxy nor the peers moved a byte, so a late loopback
        delivery is never mistaken for loss.  Returns pred()'s final value."""
        pump = list(pump)
        idle_since: Optional[float] = None
        it = 0
        last_peer_byte = t_start = time.time()
        self.until_reason = 'iterations'     # why the last until() returned: pred | idle | stall | wall | iterations
        try:
            while it < max_iter:
                moved = 0
                for p in pump:
                    moved += p.pump()
                if pred():
                    self.until_reason = 'pred'
                    return True
                self.step()
                it += 1
                if getattr(self, '_external_progress', False):
                    moved += 1          # pred() itself moved bytes (a deliberately slow reader pumped by the caller)
                    self._external_progress = False
                if moved:
                    last_peer_byte = time.time()
                if it % 64 == 0:
                    now = time.time()
                    if now - t_start > max_wall:
                        self.until_reason = 'wall'
                        break       # bytes keep flowing but pred() stays false (e.g. an endless stream): give up
                    if now - last_peer_byte > max_stall:
                        # the proxy keeps itself busy (socket calls every iteration) but no byte has reached any
                        # pumped peer for max_stall seconds: pred() is not going to become true
                        self.until_reason = 'stall'
                        break
                if moved or self.idle_streak == 0:
                    idle_since = None
                    self.sel.hold = 0.0
                elif self.idle_streak >= 3:
                    now = time.time()
                    if idle_since is None:
                        idle_since = now
                    elif now - idle_since > idle_timeout:
                        self.until_reason = 'idle'
                        break
                    self.sel.hold = 0.001       # let the kernel deliver; returns early on readiness
        finally:
            self.sel.hold = 0.0
        for p in pump:
            p.pump()
        return pred()

    def note_progress(self) -> None:
        """Called from inside a pred() that moves bytes itself, so that until() does not mistake the wait for idleness."""
        self._external_progress = True

    # ---- connections ----------------------------------------------------
    def add_client(self, transport: str = 'unix', rcvbuf: Optional[int] = None, sndbuf: Optional[int] = None,
                   name: Optional[str] = None) -> Peer:
        if transport == 'unix':
            a, b = socket.socketpair(socket.AF_UNIX, socket.SOCK_STREAM)
            addr: Any = None
        elif transport == 'tcp6':
            # a client of an IPv6 listener: accept() reports its address as a 4-tuple (host, port, flowinfo, scope id)
            if getattr(self, '_tcp6_listener', None) is None:
                ls6 = socket.socket(socket.AF_INET6, socket.SOCK_STREAM)
                ls6.setsockopt(socket.SOL_SOCKET, socket.SO_REUSEADDR, 1)
                ls6.bind(('::1', 0))
                ls6.listen(64)
                self._tcp6_listener = ls6
            a = socket.socket(socket.AF_INET6, socket.SOCK_STREAM)
            if rcvbuf:
                a.setsockopt(socket.SOL_SOCKET, socket.SO_RCVBUF, rcvbuf)
            a.connect(self._tcp6_listener.getsockname())
            b, addr = self._tcp6_listener.accept()
        else:
            if self._tcp_listener is None:
                ls = socket.socket(socket.AF_INET, socket.SOCK_STREAM)
                ls.setsockopt(socket.SOL_SOCKET, socket.SO_REUSEADDR, 1)
                ls.bind(('127.0.0.1', 0))
                ls.listen(64)
                self._tcp_listener = ls
            a = socket.socket(socket.AF_INET, socket.SOCK_STREAM)
            if rcvbuf:
                a.setsockopt(socket.SOL_SOCKET, socket.SO_RCVBUF, rcvbuf)
            a.connect(self._tcp_listener.getsockname())
            b, addr = self._tcp_listener.accept()
        if rcvbuf:
            a.setsockopt(socket.SOL_SOCKET, socket.SO_RCVBUF, rcvbuf)
        if sndbuf:
            b.setsockopt(socket.SOL_SOCKET, socket.SO_SNDBUF, sndbuf)
        peer = Peer(a, name or 'client#%d' % len(self.peers))
        self.peers.append(peer)
        self.hand_over(b, addr)
        return peer

    def hand_over(self, conn: socket.socket, addr: Any) -> None:
        """Give an accepted connection to the executor the way the acceptor does."""
        if self.mode == 'local':
            self.ex.work_queue.put((conn, addr))
        else:
            assert self._pipe is not None
            a = self._pipe[0]
            if not self.flags.unix_socket_path:
                a.send(addr)
            send_handle(a, conn.fileno(), os.getpid())
            conn.close()

    def add_origin(self, host: str = '127.0.0.2', port: int = 0) -> Origin:
        o = Origin(host, port)
        self.origins.append(o)
        return o

    # ---- structure monitors -----------------------------------------------
    def registry_state(self) -> Dict[str, Any]:
        m = self.sel.get_map()
        fds = sorted(k for k in m.keys()) if m is not None else []
        if self.mode == 'remote':
            wq = self.ex.work_queue_fileno()
            fds = [f for f in fds if f != wq]
        return {
            'works': sorted(self.ex.works.keys()),
            'registered': {k: dict(v) for k, v in self.ex.registered_events_by_work_ids.items()},
            'selector_fds': fds,
            'unfinished': len(self.ex.unfinished),
        }

    def leaked_fds(self) -> Dict[int, str]:
        """Descriptors open now that were not open at the (post-warm-up) baseline, minus harness-owned."""
        mine = {p.sock.fileno() for p in self.peers if not p.closed}
        for o in self.origins:
            mine.add(o.lsock.fileno())
            mine.update(c.sock.fileno() for c in o.conns if not c.closed)
        if self._tcp_listener is not None:
            mine.add(self._tcp_listener.fileno())
        if getattr(self, '_tcp6_listener', None) is not None:
            mine.add(self._tcp6_listener.fileno())
        now = open_fds()
        out = {}
        for fd, target in now.items():
            if fd in self.fd_baseline or fd in mine:
                continue
            if target.startswith('/proc/'):
                continue
            out[fd] = target
        return out

    def close(self) -> None:
        for p in self.peers:
            p.close()
        for o in self.origins:
            o.close()
        if self._tcp_listener is not None:
            self._tcp_listener.close()
        if getattr(self, '_tcp6_listener', None) is not None:
            self._tcp6_listener.close()
        # release whatever the executor still holds so the next case starts clean
        try:
            for wid in list(self.ex.works.keys()):
                try:
                    self.ex._cleanup(wid)
                except Exception:
                    pass
        finally:
            try:
                self.sel.close()
            except Exception:
                pass
            try:
                if not self.loop.is_closed():
                    self.loop.close()
            except Exception:
                pass
            if self._pipe is not None:
                for c in self._pipe:
                    try:
                        c.close()
                    except Exception:
                        pass

"""Shared runtime-monitoring harness for the proxy.py property checks.

Everything here imports ``proxy`` from /repo's *working tree* (see env.py) so that a
check always judges the code as it currently is on disk.
"""

"""h11 (independent HTTP/1.1 implementation, already in /venv) as reference parser."""
from typing import Any, Dict, List, Optional, Tuple

import h11


def parse_requests(data: bytes, max_msgs: int = 50) -> Tuple[List[Dict[str, Any]], Optional[str], bytes]:
    """Parse a byte stream as a server would.  Returns (messages, error, leftover).
    Each message: method, target, version, headers [(lower-name, value)], body, complete."""
    conn = h11.Connection(h11.SERVER, max_incomplete_event_size=4 * 1024 * 1024)
    out: List[Dict[str, Any]] = []
    cur: Optional[Dict[str, Any]] = None
    conn.receive_data(data)
    err = None
    while len(out) < max_msgs:
        try:
            ev = conn.next_event()
        except h11.RemoteProtocolError as e:
            err = str(e)
            break
        if ev is h11.NEED_DATA:
            break
        if ev is h11.PAUSED:
            # finished one request/response cycle: answer it so h11 lets us continue
            try:
                if conn.our_state is h11.SEND_RESPONSE:
                    conn.send(h11.Response(status_code=200, headers=[('content-length', '0')]))
                    conn.send(h11.EndOfMessage())
                if conn.our_state is h11.MUST_CLOSE or conn.their_state is h11.MUST_CLOSE:
                    break
                conn.start_next_cycle()
            except h11.LocalProtocolError as e:
                err = 'cannot-cycle: %s' % e
                break
            continue
        if isinstance(ev, h11.Request):
            cur = {'method': bytes(ev.method), 'target': bytes(ev.target), 'version': bytes(ev.http_version),
                   'headers': [(bytes(k), bytes(v)) for k, v in ev.headers], 'body': b'', 'complete': False,
                   'raw_headers': [(bytes(k), bytes(v)) for k, v in ev.headers.raw_items()]}   # names as spelt on the wire
            out.append(cur)
        elif isinstance(ev, h11.Data):
            assert cur is not None
            cur['body'] += bytes(ev.data)
        elif isinstance(ev, h11.EndOfMessage):
            assert cur is not None
            cur['complete'] = True
            cur['trailers'] = [(bytes(k), bytes(v)) for k, v in ev.headers]
        elif isinstance(ev, h11.ConnectionClosed):
            break
    leftover = bytes(conn.trailing_data[0]) if conn.trailing_data else b''
    return out, err, leftover


def parse_responses(data: bytes, methods: List[bytes], eof: bool, max_msgs: int = 50) -> Tuple[List[Dict[str, Any]], Optional[str], bytes]:
    """Parse a byte stream as a client that sent requests with the given methods would.
    Returns (messages, error, leftover).  Each message: code, reason, version, headers, body,
    complete, framing ('cl'|'chunked'|'close'|'none')."""
    out: List[Dict[str, Any]] = []
    rest = data
    err = None
    mi = 0
    while rest and len(out) < max_msgs:
        method = methods[mi] if mi < len(methods) else b'GET'
        conn = h11.Connection(h11.CLIENT, max_incomplete_event_size=64 * 1024 * 1024)
        try:
            conn.send(h11.Request(method=method, target='/' if method != b'CONNECT' else 'h:1',
                                  headers=[('host', 'h')]))
            conn.send(h11.EndOfMessage())
        except h11.LocalProtocolError as e:
            return out, 'harness: %s' % e, rest
        conn.receive_data(rest)
        if eof:
            conn.receive_data(b'')
        cur: Optional[Dict[str, Any]] = None
        done = False
        while True:
            try:
                ev = conn.next_event()
            except h11.RemoteProtocolError as e:
                err = str(e)
                break
            if ev is h11.NEED_DATA or ev is h11.PAUSED:
                break
            if isinstance(ev, (h11.Response, h11.InformationalResponse)):
                hs = [(bytes(k), bytes(v)) for k, v in ev.headers]
                names = {k for k, _ in hs}
                fr = 'chunked' if b'transfer-encoding' in names else ('cl' if b'content-length' in names else 'close')
                cur = {'code': ev.status_code, 'reason': bytes(ev.reason), 'version': bytes(ev.http_version),
                       'headers': hs, 'body': b'', 'complete': False, 'framing': fr,
                       'interim': isinstance(ev, h11.InformationalResponse)}
                out.append(cur)
                if method == b'CONNECT' and isinstance(ev, h11.Response) and 200 <= ev.status_code < 300:
                    cur['complete'] = True       # switching to tunnel mode: the response ends with its header block
                    cur['framing'] = 'none'
                    done = True
                    break
                if isinstance(ev, h11.InformationalResponse):
                    cur['complete'] = True
                    if ev.status_code == 101:
                        done = True
                        break
            elif isinstance(ev, h11.Data):
                assert cur is not None
                cur['body'] += bytes(ev.data)
            elif isinstance(ev, h11.EndOfMessage):
                assert cur is not None
                cur['complete'] = True
                done = True
                break
            elif isinstance(ev, h11.ConnectionClosed):
                break
        if err or not done:
            rest = b'' if cur is not None and not err else rest
            break
        rest = bytes(conn.trailing_data[0])
        # a successful CONNECT switches protocols: what follows is not HTTP
        if method == b'CONNECT' and cur is not None and 200 <= cur['code'] < 300:
            break
        mi += 1
    return out, err, rest


def header_multiset(headers: List[Tuple[bytes, bytes]]) -> Dict[bytes, List[bytes]]:
    d: Dict[bytes, List[bytes]] = {}
    for k, v in headers:
        d.setdefault(k.lower(), []).append(v.strip(b' \t'))
    return {k: sorted(v) for k, v in d.items()}

"""Harness-owned endpoints (client and origin peers) on real kernel sockets.

All I/O goes through the C-level ``_socket.socket`` methods so that the shim in
shim.py (installed on ``socket.socket``) never sees harness traffic.
"""
import os
import errno
import socket
import struct
import _socket
from typing import Any, List, Optional, Tuple

_rsend = _socket.socket.send
_rrecv = _socket.socket.recv
_rclose = _socket.socket.close
_rconnect = _socket.socket.connect
_rshutdown = _socket.socket.shutdown


class Peer:
    """One harness-side end of a connection.  Non-blocking; records a transcript."""

    def __init__(self, sock: socket.socket, name: str = 'peer') -> None:
        self.sock = sock
        self.name = name
        sock.setblocking(False)
        if sock.family in (socket.AF_INET, socket.AF_INET6):
            # Nagle + the peer's delayed ACK can hold a small segment back for ~40 ms - an eternity for a rig that
            # runs thousands of loop iterations per millisecond; harness endpoints always send at once.
            try:
                sock.setsockopt(socket.IPPROTO_TCP, socket.TCP_NODELAY, 1)
            except OSError:
                pass
        self.rx = bytearray()
        self.tx = 0
        self.eof = False
        self.reset = False
        self.closed = False
        self.send_error: Optional[str] = None
        self.events: List[Tuple[str, int]] = []

    def fileno(self) -> int:
        return self.sock.fileno()

    def send(self, data: bytes) -> int:
        """Non-blocking send; returns bytes accepted by the kernel (0 on EAGAIN)."""
        if self.closed:
            return 0
        try:
            n = _rsend(self.sock, data)
        except BlockingIOError:
            return 0
        except (BrokenPipeError, ConnectionResetError) as e:
            self.send_error = type(e).__name__
            self.events.append(('send-error', 0))
            return -1
        self.tx += n
        self.events.append(('sent', n))
        return n

    def pump(self, limit: Optional[int] = None) -> int:
        """Read whatever is available (up to limit bytes).  Returns bytes read."""
        if self.closed or self.eof or self.reset:
            return 0
        got = 0
        while limit is None or got < limit:
            want = 65536 if limit is None else min(65536, limit - got)
            try:
                d = _rrecv(self.sock, want)
            except BlockingIOError:
                break
            except ConnectionResetError:
                self.reset = True
                self.events.append(('reset', 0))
                break
            except OSError as e:
                if e.errno in (errno.ENOTCONN, errno.EPIPE, errno.ETIMEDOUT):
                    self.reset = True
                    self.events.append(('reset', 0))
                    break
                raise
            if not d:
                self.eof = True
                self.events.append(('eof', 0))
                break
            self.rx += d
            got += len(d)
            self.events.append(('recv', len(d)))
        return got

    @property
    def ended(self) -> bool:
        return self.eof or self.reset

    def shutdown_wr(self) -> None:
        try:
            _rshutdown(self.sock, socket.SHUT_WR)
            self.events.append(('shut-wr', 0))
        except OSError:
            pass

    def close(self) -> None:
        if not self.closed:
            self.closed = True
            self.events.append(('close', 0))
            _rclose(self.sock)

    def reset_close(self) -> None:
        """Abortive close: RST instead of FIN (TCP only; on AF_UNIX it is a plain close)."""
        if not self.closed:
            try:
                self.sock.setsockopt(socket.SOL_SOCKET, socket.SO_LINGER, struct.pack('ii', 1, 0))
            except OSError:
                pass
            self.closed = True
            self.events.append(('reset-close', 0))
            _rclose(self.sock)


class Origin:
    """A listening socket with a backlog, so the proxy's blocking connect() completes
    without the harness running concurrently; the harness accepts afterwards."""

    def __init__(self, host: str = '127.0.0.2', port: int = 0, backlog: int = 32) -> None:
        fam = socket.AF_INET6 if ':' in host else socket.AF_INET
        self.lsock = socket.socket(fam, socket.SOCK_STREAM)
        self.lsock.setsockopt(socket.SOL_SOCKET, socket.SO_REUSEADDR, 1)
        self.lsock.bind((host, port))
        self.lsock.listen(backlog)
        self.lsock.setblocking(False)
        self.host = host
        self.port = self.lsock.getsockname()[1]
        self.conns: List[Peer] = []
        self.name = 'origin@%s:%d' % (host, self.port)

    @property
    def hostport(self) -> bytes:
        h = '[%s]' % self.host if ':' in self.host else self.host
        return ('%s:%d' % (h, self.port)).encode()

    def accept(self) -> Optional[Peer]:
        try:
            fd, _ = self.lsock._accept()     # type: ignore[attr-defined]
        except BlockingIOError:
            return None
        s = socket.socket(self.lsock.family, socket.SOCK_STREAM, 0, fileno=fd)
        p = Peer(s, '%s#%d' % (self.name, len(self.conns)))
        self.conns.append(p)
        return p

    def accept_all(self) -> List[Peer]:
        out = []
        while True:
            p = self.accept()
            if p is None:
                return out
            out.append(p)

    def close(self) -> None:
        for c in self.conns:
            c.close()
        try:
            _rclose(self.lsock)
        except OSError:
            pass


def refused_port(host: str = '127.0.0.1') -> int:
    """A port on which nothing listens (bind, read the number, close)."""
    s = socket.socket(socket.AF_INET6 if ':' in host else socket.AF_INET, socket.SOCK_STREAM)
    s.bind((host, 0))
    port = s.getsockname()[1]
    _rclose(s)
    return port


def open_fds() -> dict:
    out = {}
    for name in os.listdir('/proc/self/fd'):
        try:
            out[int(name)] = os.readlink('/proc/self/fd/' + name)
        except OSError:
            pass
    return out

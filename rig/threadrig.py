"""Thread rig: the product's thread-per-connection path (start_threaded_work -> HttpProtocolHandler.run)
with harness-owned peers.  The handler thread runs freely; the harness only talks through sockets and
joins the thread.  Verdicts are taken on transcripts, never on wall time; every wait has a generous
watchdog whose expiry means *inconclusive*."""
import time
import socket
import threading
from typing import Any, Callable, Iterable, List, Optional, Tuple

from . import env, shim
from .peers import Peer, Origin

from proxy.core.work.threaded import start_threaded_work        # noqa: E402


class ThreadRig:
    def __init__(self, flags: Any) -> None:
        assert not flags.threadless
        self.flags = flags
        shim.install()
        shim.S.all_threads_active = True        # harness peers bypass the shim (raw _socket calls)
        self.peers: List[Peer] = []
        self.origins: List[Origin] = []
        self.works: List[Tuple[Any, threading.Thread]] = []
        self._tcp_listener: Optional[socket.socket] = None

    def add_client(self, transport: str = 'tcp', rcvbuf: Optional[int] = None, sndbuf: Optional[int] = None) -> Tuple[Peer, Any, threading.Thread]:
        if transport == 'unix':
            a, b = socket.socketpair(socket.AF_UNIX, socket.SOCK_STREAM)
            addr: Any = None
        else:
            if self._tcp_listener is None:
                ls = socket.socket(socket.AF_INET, socket.SOCK_STREAM)
                ls.setsockopt(socket.SOL_SOCKET, socket.SO_REUSEADDR, 1)
                ls.bind(('127.0.0.1', 0))
                ls.listen(64)
                self._tcp_listener = ls
            a = socket.socket(socket.AF_INET, socket.SOCK_STREAM)
            if rcvbuf:
                a.setsockopt(socket.SOL_SOCKET, socket.SO_RCVBUF, rcvbuf)
            shim._orig_connect(a, self._tcp_listener.getsockname())
            b, addr = self._tcp_listener.accept()
        if rcvbuf:
            a.setsockopt(socket.SOL_SOCKET, socket.SO_RCVBUF, rcvbuf)
        if sndbuf:
            b.setsockopt(socket.SOL_SOCKET, socket.SO_SNDBUF, sndbuf)
        peer = Peer(a, 'tclient#%d' % len(self.peers))
        self.peers.append(peer)
        work, th = start_threaded_work(self.flags, b, addr)
        self.works.append((work, th))
        return peer, work, th

    def add_origin(self, host: str = '127.0.0.2', port: int = 0) -> Origin:
        o = Origin(host, port)
        self.origins.append(o)
        return o

    def wait(self, pred: Callable[[], bool], pump: Iterable[Peer] = (), timeout: float = 20.0,
             tick: Optional[Callable[[], None]] = None) -> bool:
        pump = list(pump)
        end = time.time() + timeout
        while True:
            moved = 0
            for p in pump:
                moved += p.pump()
            if tick is not None:
                tick()
            if pred():
                return True
            if time.time() > end:
                return False
            if not moved:
                time.sleep(0.0005)

    def close(self, join_timeout: float = 5.0) -> int:
        """Closes all harness sockets and joins handler threads; returns the number still alive."""
        for p in self.peers:
            p.close()
        for o in self.origins:
            o.close()
        if self._tcp_listener is not None:
            self._tcp_listener.close()
        alive = 0
        for _, th in self.works:
            th.join(join_timeout)
            if th.is_alive():
                alive += 1
        shim.S.all_threads_active = False
        return alive

"""Reference codecs written from the RFCs (not from the repository's code)."""
import re
from typing import List, Optional, Tuple

CRLF = b'\r\n'
_HEX = re.compile(rb'^[0-9A-Fa-f]+$')


class Incomplete(Exception):
    pass


class Malformed(Exception):
    pass


def dechunk(data: bytes) -> Tuple[bytes, List[Tuple[bytes, bytes]], int]:
    """RFC 9112 7.1 chunked-body decoder.  Returns (body, trailer fields, bytes consumed)."""
    pos = 0
    body = bytearray()
    while True:
        eol = data.find(CRLF, pos)
        if eol < 0:
            raise Incomplete()
        line = data[pos:eol]
        size_txt = line.split(b';', 1)[0].strip(b' \t')
        if not _HEX.match(size_txt):
            raise Malformed('chunk-size %r' % line)
        size = int(size_txt, 16)
        pos = eol + 2
        if size == 0:
            break
        if len(data) < pos + size + 2:
            raise Incomplete()
        body += data[pos:pos + size]
        if data[pos + size:pos + size + 2] != CRLF:
            raise Malformed('chunk-data not followed by CRLF')
        pos += size + 2
    trailers: List[Tuple[bytes, bytes]] = []
    while True:
        eol = data.find(CRLF, pos)
        if eol < 0:
            raise Incomplete()
        line = data[pos:eol]
        pos = eol + 2
        if line == b'':
            break
        if b':' not in line:
            raise Malformed('trailer %r' % line)
        k, v = line.split(b':', 1)
        trailers.append((k.strip(), v.strip()))
    return bytes(body), trailers, pos


def enchunk(body: bytes, sizes: List[int]) -> bytes:
    out = bytearray()
    off = 0
    for s in sizes:
        out += b'%x\r\n' % s + body[off:off + s] + CRLF
        off += s
    assert off == len(body)
    out += b'0\r\n\r\n'
    return bytes(out)

"""Check driver: runs a check module's cases (optionally sharded over processes),
classifies violations against known_findings.json, writes the evidence file and
replay witnesses, prints the interface lines and returns the exit code.

A check module provides:

    PROPERTY = 'C03'
    LEVEL    = 'exploration' | 'fault_enumeration'
    RULE     = '...'                      # how cases are generated, what is non-trivial
    ASSUMPTIONS = [...]
    def cases(tier, seed):                # deterministic iterator of JSON-able dicts
    def run_case(case) -> dict:           # see CaseResult below
    def floors(tier) -> {counter: min}    # non-vacuity floors on merged counters
    SHARDS = {'quick': n, 'thorough': n}  # optional
    BUDGET_S = {'quick': s, 'thorough': s}# optional wall budget (stop generating afterwards)
    def begin(tier) / def end()           # optional per-process setup / teardown
    def summarize(tier, seed, merged) -> list of extra violations  # optional cross-case oracle

CaseResult (dict):
    viol:   [ {key: 'mechanism key', detail: {...}} ]   # empty = held
    sig:    hashable/str signature of the case class (for distinct counting)
    nontrivial: bool
    obs:    {counter: int}          # summed over cases
    sets:   {name: [hashable,...]}  # unioned over cases, sizes reported
    inconclusive: str | None
    sample: anything JSON-able (optional; a few are kept)
"""
import os
import sys
import json
import time
import hashlib
import argparse
import traceback
import subprocess
from typing import Any, Dict, List, Optional

from . import env

KNOWN_PATH = os.path.join(env.VERIF, 'known_findings.json')


def _jsonable(x: Any) -> Any:
    if isinstance(x, (bytes, bytearray, memoryview)):
        b = bytes(x)
        if len(b) > 400:
            return {'bytes_len': len(b), 'head': b[:200].decode('latin-1'), 'sha1': hashlib.sha1(b).hexdigest()}
        return b.decode('latin-1')
    if isinstance(x, dict):
        return {str(k): _jsonable(v) for k, v in x.items()}
    if isinstance(x, (list, tuple, set, frozenset)):
        return [_jsonable(v) for v in x]
    if isinstance(x, (str, int, float, bool)) or x is None:
        return x
    return repr(x)


def load_known() -> List[Dict[str, Any]]:
    try:
        with open(KNOWN_PATH) as f:
            return json.load(f).get('findings', [])
    except FileNotFoundError:
        return []


class Merged:
    def __init__(self) -> None:
        self.evaluations = 0
        self.sigs: set = set()
        self.nontrivial_sigs: set = set()
        self.obs: Dict[str, int] = {}
        self.sets: Dict[str, set] = {}
        self.samples: List[Any] = []
        self.viol: List[Dict[str, Any]] = []     # {key, detail, case}
        self.inconclusive: List[str] = []
        self.errors: List[str] = []
        self.budget_hit = False
        self.planned = 0        # cases the generator held for this run (== evaluations unless the wall budget cut it short)

    def add(self, case: Dict[str, Any], res: Dict[str, Any], keep_samples: int = 6) -> None:
        self.evaluations += 1
        sig = res.get('sig')
        if sig is None:
            sig = hashlib.sha1(json.dumps(_jsonable(case), sort_keys=True).encode()).hexdigest()
        sig = str(sig)
        self.sigs.add(sig)
        if res.get('nontrivial'):
            self.nontrivial_sigs.add(sig)
        for k, v in (res.get('obs') or {}).items():
            self.obs[k] = self.obs.get(k, 0) + int(v)
        for k, vs in (res.get('sets') or {}).items():
            self.sets.setdefault(k, set()).update(str(v) for v in vs)
        if res.get('inconclusive'):
            self.inconclusive.append(str(res['inconclusive']))
        for v in res.get('viol') or []:
            self.viol.append({'key': v['key'], 'detail': _jsonable(v.get('detail')), 'case': _jsonable(case)})
        if 'sample' in res and len(self.samples) < keep_samples and (res.get('nontrivial') or not self.samples):
            self.samples.append(_jsonable(res['sample']))

    def to_json(self) -> Dict[str, Any]:
        return {
            'evaluations': self.evaluations, 'sigs': sorted(self.sigs),
            'nontrivial_sigs': sorted(self.nontrivial_sigs), 'obs': self.obs,
            'sets': {k: sorted(v) for k, v in self.sets.items()},
            'samples': self.samples, 'viol': self.viol,
            'inconclusive': self.inconclusive, 'errors': self.errors,
            'budget_hit': self.budget_hit, 'planned': self.planned,
        }

    def merge_json(self, d: Dict[str, Any]) -> None:
        self.evaluations += d['evaluations']
        self.sigs.update(d['sigs'])
        self.nontrivial_sigs.update(d['nontrivial_sigs'])
        for k, v in d['obs'].items():
            self.obs[k] = self.obs.get(k, 0) + v
        for k, vs in d['sets'].items():
            self.sets.setdefault(k, set()).update(vs)
        for s in d['samples']:
            if len(self.samples) < 8:
                self.samples.append(s)
        self.viol.extend(d['viol'])
        self.inconclusive.extend(d['inconclusive'])
        self.errors.extend(d['errors'])
        self.budget_hit = self.budget_hit or d.get('budget_hit', False)
        self.planned += d.get('planned', d['evaluations'])


def run_cases(mod: Any, tier: str, seed: int, shard: int, nshards: int, budget_s: float,
              only_case: Optional[Dict[str, Any]] = None) -> Merged:
    m = Merged()
    t0 = time.time()
    if hasattr(mod, 'begin'):
        mod.begin(tier)
    try:
        if only_case is not None:
            it: List[Any] = [only_case]
        else:
            # Generators emit cases class by class; a deterministic shuffle makes every prefix of the run a fair sample of
            # all classes, so that a run cut short by the wall budget (loaded machine) still meets its (scaled) floors.
            import random as _random
            it = list(mod.cases(tier, seed))
            if not getattr(mod, 'KEEP_ORDER', False):
                _random.Random('order:%s:%d' % (mod.PROPERTY, seed)).shuffle(it)
        for i, case in enumerate(it):
            if only_case is None and i % nshards != shard:
                continue
            m.planned += 1
            if m.budget_hit:
                continue        # wall budget used up: the remaining cases are only counted (for the scaled floors)
            if time.time() - t0 > budget_s:
                m.budget_hit = True
                continue
            try:
                res = mod.run_case(case)
            except Exception:   # harness error: never a verdict on the property
                m.errors.append(traceback.format_exc()[-1500:])
                m.evaluations += 1
                m.inconclusive.append('harness-exception')
                if len(m.errors) > 20:
                    break
                continue
            m.add(case, res)
    finally:
        if hasattr(mod, 'end'):
            try:
                mod.end()
            except Exception:
                m.errors.append(traceback.format_exc()[-1500:])
    return m


def main(mod: Any, argv: Optional[List[str]] = None) -> int:
    ap = argparse.ArgumentParser()
    ap.add_argument('--tier', default=os.environ.get('VERIF_TIER', 'quick'), choices=['quick', 'thorough'])
    ap.add_argument('--seed', type=int, default=int(os.environ.get('VERIF_SEED', '0')))
    ap.add_argument('--replay', default=None)
    ap.add_argument('--shard', default=None, help='i/N (internal)')
    ap.add_argument('--partial', default=None, help='partial result path (internal)')
    ap.add_argument('--no-evidence', action='store_true')
    a = ap.parse_args(argv)
    pid = mod.PROPERTY
    t0 = time.time()
    budget = float(getattr(mod, 'BUDGET_S', {}).get(a.tier, 50 if a.tier == 'quick' else 900))
    if os.environ.get('VERIF_BUDGET_S'):
        budget = float(os.environ['VERIF_BUDGET_S'])

    if a.shard:
        i, n = a.shard.split('/')
        m = run_cases(mod, a.tier, a.seed, int(i), int(n), budget)
        with open(a.partial, 'w') as f:
            json.dump(m.to_json(), f)
        return 0

    if a.replay:
        with open(a.replay) as f:
            rep = json.load(f)
        m = run_cases(mod, rep.get('tier', a.tier), rep.get('seed', a.seed), 0, 1, budget, only_case=rep['case'])
        return report(mod, m, a.tier, a.seed, t0, write_evidence=False, replay=True)

    nshards = int(getattr(mod, 'SHARDS', {}).get(a.tier, 1))
    if os.environ.get('VERIF_SHARDS'):
        nshards = int(os.environ['VERIF_SHARDS'])
    if nshards <= 1:
        m = run_cases(mod, a.tier, a.seed, 0, 1, budget)
    else:
        m = Merged()
        wd = env.workdir('partials', pid)
        procs = []
        for i in range(nshards):
            part = os.path.join(wd, 'part.%d.%d.json' % (os.getpid(), i))
            cmd = [sys.executable, '-m', 'checks.' + mod.__name__.split('.')[-1], '--tier', a.tier,
                   '--seed', str(a.seed), '--shard', '%d/%d' % (i, nshards), '--partial', part]
            procs.append((part, subprocess.Popen(cmd, cwd=env.VERIF, stdout=subprocess.PIPE,
                                                 stderr=subprocess.STDOUT)))
        for part, p in procs:
            try:
                out, _ = p.communicate(timeout=budget * 3 + 120)
            except subprocess.TimeoutExpired:
                p.kill()
                out, _ = p.communicate()
                m.inconclusive.append('shard-watchdog')
                m.errors.append('shard timed out: ' + out.decode('latin-1')[-800:])
                continue
            if p.returncode != 0 or not os.path.exists(part):
                m.inconclusive.append('shard-failed')
                m.errors.append('shard rc=%s: %s' % (p.returncode, out.decode('latin-1')[-1500:]))
                continue
            with open(part) as f:
                m.merge_json(json.load(f))
            os.unlink(part)
    if hasattr(mod, 'summarize'):
        for v in mod.summarize(a.tier, a.seed, m) or []:
            m.viol.append({'key': v['key'], 'detail': _jsonable(v.get('detail')), 'case': _jsonable(v.get('case'))})
    return report(mod, m, a.tier, a.seed, t0, write_evidence=not a.no_evidence)


def report(mod: Any, m: Merged, tier: str, seed: int, t0: float, write_evidence: bool = True,
           replay: bool = False) -> int:
    pid = mod.PROPERTY
    known = [k for k in load_known() if k.get('property') == pid and k.get('status') == 'known']
    known_keys = {k['key']: k for k in known}
    hit_known: Dict[str, int] = {}
    new: Dict[str, List[Dict[str, Any]]] = {}
    for v in m.viol:
        if v['key'] in known_keys:
            hit_known[v['key']] = hit_known.get(v['key'], 0) + 1
        else:
            new.setdefault(v['key'], []).append(v)

    lines = []
    rc = 0
    replays = []
    if new:
        rc = 1
        rdir = os.path.join(env.VERIF, 'replays', pid)
        os.makedirs(rdir, exist_ok=True)
        for key, vs in sorted(new.items()):
            v = min(vs, key=lambda x: len(json.dumps(x['case'])))
            h = hashlib.sha1((key + json.dumps(v['case'], sort_keys=True)).encode()).hexdigest()[:12]
            path = os.path.join(rdir, h + '.json')
            with open(path, 'w') as f:
                json.dump({'property': pid, 'tier': tier, 'seed': seed, 'key': key,
                           'detail': v['detail'], 'case': v['case'], 'count': len(vs)}, f, indent=1)
            replays.append(path)
            if len(replays) <= 12:
                lines.append('VIOLATION property=%s replay=%s' % (pid, path))
                lines.append('  key=%s count=%d detail=%s' % (key, len(vs), json.dumps(v['detail'])[:240]))
        if len(replays) > 12:
            lines.append('  ... and %d more violation keys (all witnesses under %s)' % (len(replays) - 12, rdir))
    # one line per listed finding of this property, met by this run's cases or not (a finding whose trigger is rare - one input in
    # a thousand - stays listed and announced; the count says what this run saw)
    for key in sorted(known_keys):
        n = hit_known.get(key, 0)
        lines.append('KNOWN-FINDING: property=%s %s [%s] (observed %d times%s)' % (
            pid, known_keys[key].get('what', ''), key, n, '' if n or replay else ' in this run'))

    # non-vacuity floors are about a whole run; a replay executes one recorded case
    floors = mod.floors(tier) if hasattr(mod, 'floors') and not replay else {}
    floor_fail = []
    counters = dict(m.obs)
    counters['evaluations'] = m.evaluations
    counters['distinct_nontrivial'] = len(m.nontrivial_sigs)
    for k, vs in m.sets.items():
        counters['distinct:' + k] = len(vs)
    # The floors describe a complete run.  When the wall budget cut the run short (loaded machine) they are scaled to the
    # fraction of the planned cases that was actually executed, so that a truncated run is judged on what it had the chance to see.
    fraction = 1.0
    if m.budget_hit and m.planned > 0:
        fraction = max(0.05, min(1.0, m.evaluations / float(m.planned)))
    for k, mn in floors.items():
        eff = mn if fraction >= 1.0 else max(1 if fraction >= 0.25 else 0, int(mn * fraction * 0.7))
        if counters.get(k, 0) < eff:
            floor_fail.append('%s=%d<%d' % (k, counters.get(k, 0), eff))
    inconc_frac = (len(m.inconclusive) / m.evaluations) if m.evaluations else 1.0
    inconclusive_reason = None
    if floor_fail:
        inconclusive_reason = 'non-vacuity floor not met: ' + ','.join(floor_fail)
    elif inconc_frac > 0.05:
        inconclusive_reason = 'inconclusive cases %.1f%% (%s)' % (
            100 * inconc_frac, ','.join(sorted(set(m.inconclusive))[:5]))
    if rc == 0 and inconclusive_reason:
        rc = 2
        lines.append('INCONCLUSIVE property=%s reason=%s' % (pid, inconclusive_reason))
    for e in m.errors[:3]:
        lines.append('HARNESS-ERROR: ' + e.strip().splitlines()[-1])
        if os.environ.get('VERIF_DEBUG') or rc == 2:
            lines.append(e)

    wall = time.time() - t0
    if write_evidence:
        cov = {
            'evaluations': m.evaluations,
            'distinct_nontrivial': len(m.nontrivial_sigs),
            'distinct_cases': len(m.sigs),
            'rule': mod.RULE,
            'samples': m.samples or ['(no sample recorded)'],
            'observed': dict(sorted(m.obs.items())),
            'distinct_sets': {k: len(v) for k, v in sorted(m.sets.items())},
            'set_members_sample': {k: sorted(v)[:25] for k, v in sorted(m.sets.items())},
            'floors': floors,
            'inconclusive_cases': len(m.inconclusive),
            'inconclusive_reasons': sorted(set(m.inconclusive))[:10],
            'known_findings_hit': hit_known,
            'new_violation_keys': sorted(new.keys()),
            'budget_hit': m.budget_hit,
            'cases_planned': m.planned,
            'floor_scale': round(fraction, 3),
            'verdict': 'violated' if new else ('inconclusive' if rc == 2 else 'held-on-observed'),
        }
        if getattr(mod, 'EXHAUSTIVE', None) and not m.budget_hit:
            cov['exhaustive_subspaces'] = mod.EXHAUSTIVE.get(tier, [])
        ev = {
            'property_id': pid, 'tier': tier, 'seed': seed, 'level': mod.LEVEL,
            'coverage': cov,
            'assumptions': list(getattr(mod, 'ASSUMPTIONS', [])),
            'wall_s': round(wall, 2),
            'violations': len(new),
        }
        os.makedirs(os.path.join(env.VERIF, 'evidence'), exist_ok=True)
        tmp = os.path.join(env.VERIF, 'evidence', pid + '.json.tmp')
        with open(tmp, 'w') as f:
            json.dump(ev, f, indent=1, sort_keys=True)
        os.replace(tmp, os.path.join(env.VERIF, 'evidence', pid + '.json'))

    print('%s %s seed=%d: %d cases, %d distinct non-trivial, %d known-finding hits, %d new violation keys, '
          '%d inconclusive, %.1fs' % (pid, tier, seed, m.evaluations, len(m.nontrivial_sigs),
                                      sum(hit_known.values()), len(new), len(m.inconclusive), wall))
    keys = sorted(counters)
    print('  observed: ' + ', '.join('%s=%d' % (k, counters[k]) for k in keys)[:3000])
    for ln in lines:
        print(ln)
    sys.stdout.flush()
    return rc

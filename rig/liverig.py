"""Parent side of the live rig: spawns rig/live_driver.py in a fresh subprocess (never multiprocessing.Pool),
talks the line protocol, reads the kernel's listening table for the driver's process tree, merges the
per-process event logs."""
import os
import sys
import json
import glob
import time
import shutil
import select
import signal
import socket
import subprocess
from typing import Any, Dict, List, Optional, Set, Tuple

from . import env


class LiveFailed(Exception):
    pass


class Live:
    def __init__(self, args: List[str], run_dir: str, plugins: Optional[List[str]] = None, hashseed: int = 0,
                 resolver: Optional[Dict[str, str]] = None, events: Optional[List[str]] = None,
                 module_state: Optional[Dict[str, Any]] = None, switch_interval: Optional[float] = None,
                 ready_timeout: float = 40.0, second: Optional[List[str]] = None) -> None:
        self.run_dir = run_dir
        os.makedirs(run_dir, exist_ok=True)
        spec = {'args': args, 'run_dir': run_dir, 'plugins': plugins or [], 'resolver': resolver or {}, 'events': events or [],
                'module_state': module_state or {}, 'switch_interval': switch_interval, 'second': second}
        e = dict(os.environ)
        e.update({'PYTHONHASHSEED': str(hashseed), 'PYTHONDONTWRITEBYTECODE': '1', env.GUARD: '1', 'VERIF_REPO': env.REPO})
        self.proc = subprocess.Popen([sys.executable, '-m', 'rig.live_driver', json.dumps(spec)], cwd=env.VERIF, env=e,
                                     stdin=subprocess.PIPE, stdout=subprocess.PIPE, stderr=subprocess.DEVNULL, text=True, bufsize=1)
        self.ready: Dict[str, Any] = {}
        tag, d = self._read(ready_timeout)
        if tag != 'READY':
            self.kill()
            raise LiveFailed('%s %s' % (tag, json.dumps(d)[:600]))
        self.ready = d
        self.pid = d['pid']
        self.down: Optional[Dict[str, Any]] = None

    def _read(self, timeout: float) -> Tuple[str, Dict[str, Any]]:
        end = time.time() + timeout
        assert self.proc.stdout is not None
        while time.time() < end:
            r, _, _ = select.select([self.proc.stdout], [], [], 0.2)
            if r:
                line = self.proc.stdout.readline()
                if not line:
                    return 'EOF', {'rc': self.proc.poll()}
                if ' ' in line:
                    tag, rest = line.split(' ', 1)
                    try:
                        return tag, json.loads(rest)
                    except ValueError:
                        continue
            elif self.proc.poll() is not None:
                return 'EXIT', {'rc': self.proc.returncode}
        return 'TIMEOUT', {}

    def snapshot(self) -> Dict[str, Any]:
        assert self.proc.stdin is not None
        self.proc.stdin.write('SNAPSHOT\n')
        self.proc.stdin.flush()
        tag, d = self._read(20)
        if tag != 'SNAP':
            raise LiveFailed('snapshot: %s' % tag)
        return d

    def shutdown(self, timeout: float = 40.0) -> Dict[str, Any]:
        assert self.proc.stdin is not None
        try:
            self.proc.stdin.write('SHUTDOWN\n')
            self.proc.stdin.flush()
        except (BrokenPipeError, OSError):
            pass
        tag, d = self._read(timeout)
        self.down = {'tag': tag}
        self.down.update(d)
        return self.down

    def await_down(self, timeout: float = 40.0) -> Dict[str, Any]:
        """Keep waiting for the DOWN line of a SHUTDOWN that has not completed yet."""
        tag, d = self._read(timeout)
        self.down = {'tag': tag}
        self.down.update(d)
        return self.down

    def exit(self) -> bool:
        """Tell the (shut down, still living) driver to exit.  False if it does not exit."""
        assert self.proc.stdin is not None
        try:
            self.proc.stdin.write('EXIT\n')
            self.proc.stdin.flush()
        except (BrokenPipeError, OSError):
            pass
        try:
            self.proc.wait(90)      # interpreter exit on a loaded machine is slow; only a driver that never exits is reported
            return True
        except subprocess.TimeoutExpired:
            return False

    def kill(self) -> None:
        """Last resort clean-up (also of orphaned children)."""
        kids = process_tree(self.proc.pid) if self.proc.poll() is None else []
        for k in kids + ([self.proc.pid] if self.proc.poll() is None else []):
            try:
                os.kill(k, signal.SIGKILL)
            except OSError:
                pass
        try:
            self.proc.wait(5)
        except Exception:
            pass
        for f in (self.proc.stdin, self.proc.stdout):
            try:
                if f:
                    f.close()
            except Exception:
                pass

    def events(self) -> List[Dict[str, Any]]:
        out: List[Dict[str, Any]] = []
        for fn in glob.glob(os.path.join(self.run_dir, 'events.*.jsonl')):
            with open(fn) as f:
                for line in f:
                    try:
                        out.append(json.loads(line))
                    except ValueError:
                        pass
        out.sort(key=lambda r: r.get('t', 0))
        return out


def process_tree(pid: int) -> List[int]:
    out = []
    for name in os.listdir('/proc'):
        if not name.isdigit():
            continue
        try:
            with open('/proc/%s/stat' % name) as f:
                st = f.read()
            ppid = int(st.rsplit(')', 1)[1].split()[1])
        except (OSError, ValueError, IndexError):
            continue
        if ppid == pid:
            out.append(int(name))
            out.extend(process_tree(int(name)))
    return out


def alive(pid: int) -> bool:
    try:
        with open('/proc/%d/stat' % pid) as f:
            st = f.read()
        return st.rsplit(')', 1)[1].split()[0] != 'Z'
    except OSError:
        return False


def _inodes_of(pids: List[int]) -> Set[str]:
    ino: Set[str] = set()
    for pid in pids:
        try:
            for n in os.listdir('/proc/%d/fd' % pid):
                try:
                    t = os.readlink('/proc/%d/fd/%s' % (pid, n))
                except OSError:
                    continue
                if t.startswith('socket:['):
                    ino.add(t[8:-1])
        except OSError:
            pass
    return ino


def listening_inodes() -> Set[str]:
    """Inodes of every TCP socket in LISTEN state on this machine."""
    out: Set[str] = set()
    for fn in ('/proc/net/tcp', '/proc/net/tcp6'):
        try:
            with open(fn) as f:
                for row in f.read().splitlines()[1:]:
                    p = row.split()
                    if len(p) >= 10 and p[3] == '0A':
                        out.add(p[9])
        except OSError:
            pass
    return out


def listening(pids: List[int]) -> Dict[str, Any]:
    """The kernel's table of listening sockets owned by the given processes:
    {'tcp': {(addr, port)}, 'unix': {path}, 'tcp_inodes': {(addr, port): inode}}."""
    ino = _inodes_of(pids)
    tcp: Set[Tuple[str, int]] = set()
    tcp_inodes: Dict[Tuple[str, int], str] = {}
    for fn, v6 in (('/proc/net/tcp', False), ('/proc/net/tcp6', True)):
        try:
            with open(fn) as f:
                rows = f.read().splitlines()[1:]
        except OSError:
            continue
        for row in rows:
            p = row.split()
            if len(p) < 10 or p[3] != '0A' or p[9] not in ino:
                continue
            a, port = p[1].rsplit(':', 1)
            if v6:
                b = bytes.fromhex(a)
                raw = b''.join(b[i:i + 4][::-1] for i in range(0, 16, 4))
                addr = socket.inet_ntop(socket.AF_INET6, raw)
            else:
                addr = socket.inet_ntop(socket.AF_INET, bytes.fromhex(a)[::-1])
            tcp.add((addr, int(port, 16)))
            tcp_inodes[(addr, int(port, 16))] = p[9]
    unix: Set[str] = set()
    try:
        with open('/proc/net/unix') as f:
            for row in f.read().splitlines()[1:]:
                p = row.split()
                if len(p) >= 8 and p[6] in ino and p[3] == '00010000':
                    unix.add(p[7])
    except OSError:
        pass
    return {'tcp': tcp, 'unix': unix, 'tcp_inodes': tcp_inodes}


def tcp_sockets(port: int) -> List[Tuple[str, str]]:
    """(local address, state) of every TCP socket of the machine whose local port is `port` ('0A' = LISTEN, '06' = TIME_WAIT)."""
    out = []
    for fn in ('/proc/net/tcp', '/proc/net/tcp6'):
        try:
            with open(fn) as f:
                next(f)
                for line in f:
                    parts = line.split()
                    addr, st = parts[1], parts[3]
                    if int(addr.rsplit(':', 1)[1], 16) == port:
                        out.append((addr, st))
        except (OSError, StopIteration):
            pass
    return out


def free_port(host: str) -> int:
    s = socket.socket(socket.AF_INET6 if ':' in host else socket.AF_INET, socket.SOCK_STREAM)
    s.bind((host, 0))
    p = s.getsockname()[1]
    s.close()
    return p


def can_connect(host: str, port: int, timeout: float = 2.0) -> bool:
    s = socket.socket(socket.AF_INET6 if ':' in host else socket.AF_INET, socket.SOCK_STREAM)
    s.settimeout(timeout)
    try:
        s.connect((host, port))
        return True
    except OSError:
        return False
    finally:
        s.close()

"""Runs the assembled product (proxy.Proxy: listeners, acceptor processes, worker processes) in a fresh
subprocess under the harness's instrumentation.  Protocol on stdout/stdin (one JSON document per line):

    > READY {"pid":..., "port":..., "ports":[...], "children":[...]}      after Proxy.setup()
    < SNAPSHOT            > SNAP {...}        flags.port / flags.ports / children / fds per process
    < SHUTDOWN            > DOWN {...}        after Proxy.shutdown(); the process stays alive
    < EXIT                                    process exits
    > FAILED {"error": "..."}                 setup raised

Forked acceptors / workers inherit the audit recorder and the resolver override; each process appends JSON
lines to $RUN/events.<pid>.jsonl."""
import os
import sys
import json
import time
import socket
import importlib
import traceback
from typing import Any, Dict, List

HERE = os.path.dirname(os.path.dirname(os.path.abspath(__file__)))
REPO = os.environ.get('VERIF_REPO', '/repo')
for p in (os.path.join(HERE, '.deps'), HERE, REPO):
    if p not in sys.path:
        sys.path.insert(0, p)


def children_of(pid: int) -> List[int]:
    out = []
    for name in os.listdir('/proc'):
        if not name.isdigit():
            continue
        try:
            with open('/proc/%s/stat' % name) as f:
                st = f.read()
            ppid = int(st.rsplit(')', 1)[1].split()[1])
        except (OSError, ValueError, IndexError):
            continue
        if ppid == pid:
            out.append(int(name))
            out.extend(children_of(int(name)))
    return out


def fds_of(pid: int) -> Dict[str, str]:
    out = {}
    try:
        for n in os.listdir('/proc/%d/fd' % pid):
            try:
                out[n] = os.readlink('/proc/%d/fd/%s' % (pid, n))
            except OSError:
                pass
    except OSError:
        pass
    return out


def install_recorder(run_dir: str, events: List[str]) -> None:
    want = set(events)
    state: Dict[str, Any] = {'pid': None, 'f': None}

    def hook(ev: str, args: Any) -> None:
        if ev not in want:
            return
        try:
            pid = os.getpid()
            if state['pid'] != pid:
                state['pid'] = pid
                state['f'] = open(os.path.join(run_dir, 'events.%d.jsonl' % pid), 'a', buffering=1)
            if ev == 'socket.connect':
                rec = {'ev': ev, 'addr': list(args[1]) if isinstance(args[1], tuple) else repr(args[1])}
            elif ev == 'socket.getaddrinfo':
                rec = {'ev': ev, 'host': args[0] if isinstance(args[0], str) else repr(args[0]), 'port': args[1]}
            elif ev == 'socket.bind':
                rec = {'ev': ev, 'addr': list(args[1]) if isinstance(args[1], tuple) else repr(args[1])}
            elif ev == 'subprocess.Popen':
                rec = {'ev': ev, 'argv': [str(a) for a in (args[1] if isinstance(args[1], (list, tuple)) else [args[1]])][:12]}
            elif ev == 'open':
                rec = {'ev': ev, 'path': str(args[0]), 'mode': str(args[1])}
            else:
                rec = {'ev': ev}
            rec['t'] = time.time()
            rec['pid'] = pid
            state['f'].write(json.dumps(rec) + '\n')
        except Exception:
            pass
    sys.addaudithook(hook)


def install_resolver(mapping: Dict[str, str]) -> None:
    real = socket.getaddrinfo
    table = {k.lower(): v for k, v in mapping.items()}

    def gai(host: Any, port: Any, family: int = 0, type: int = 0, proto: int = 0, flags: int = 0) -> Any:
        h = host.decode('utf-8', 'replace') if isinstance(host, bytes) else host
        ip = table.get(str(h).rstrip('.').lower()) if h is not None else None
        if ip is None:
            if isinstance(h, str) and h.endswith('.test'):
                raise socket.gaierror(socket.EAI_NONAME, 'Name or service not known (harness resolver)')
            return real(host, port, family, type, proto, flags)
        p = int(port) if port is not None else 0
        if ':' in ip:
            return [(socket.AF_INET6, type or socket.SOCK_STREAM, proto or 6, '', (ip, p, 0, 0))]
        return [(socket.AF_INET, type or socket.SOCK_STREAM, proto or 6, '', (ip, p))]
    socket.getaddrinfo = gai     # type: ignore[assignment]


def main() -> int:
    spec = json.loads(sys.argv[1])
    run_dir = spec['run_dir']
    if spec.get('events'):
        install_recorder(run_dir, spec['events'])
    if spec.get('resolver'):
        install_resolver(spec['resolver'])
    if spec.get('switch_interval'):
        sys.setswitchinterval(float(spec['switch_interval']))
    import logging
    logging.disable(logging.CRITICAL)
    import proxy
    plugins = []
    for name in spec.get('plugins', []):
        mod, cls = name.rsplit('.', 1)
        plugins.append(getattr(importlib.import_module(mod), cls))
    for name, value in (spec.get('module_state') or {}).items():
        mod, attr = name.rsplit('.', 1)
        m = importlib.import_module(mod)
        cur = getattr(m, attr)
        if isinstance(cur, dict):
            cur.clear()
            cur.update({k: (v.encode('latin-1') if isinstance(v, str) else v) for k, v in value.items()})
        else:
            setattr(m, attr, value)
    opts: Dict[str, Any] = {}
    if plugins:
        opts['plugins'] = plugins
    out = sys.stdout

    def say(tag: str, d: Dict[str, Any]) -> None:
        out.write('%s %s\n' % (tag, json.dumps(d)))
        out.flush()
    try:
        p = proxy.Proxy(spec['args'], **opts)
        p.setup()
    except BaseException as e:      # noqa: B902
        say('FAILED', {'error': repr(e), 'tb': traceback.format_exc()[-1500:]})
        return 3

    p2 = None
    if spec.get('second'):
        # a second, independent instance inside the same embedding process, started while the first one is running
        try:
            p2 = proxy.Proxy(spec['second'], **opts)
            p2.setup()
        except BaseException as e:      # noqa: B902
            say('FAILED', {'error': 'second instance: ' + repr(e), 'tb': traceback.format_exc()[-1500:]})
            return 3

    def snap() -> Dict[str, Any]:
        kids = children_of(os.getpid())
        d = {'pid': os.getpid(), 'port': p.flags.port, 'ports': list(p.flags.ports), 'children': kids,
             'fds': {str(k): fds_of(k) for k in [os.getpid()] + kids},
             'unix_socket_path': p.flags.unix_socket_path}
        if p2 is not None:
            d['second'] = {'port': p2.flags.port, 'ports': list(p2.flags.ports)}
        return d
    say('READY', snap())
    shut = False
    for line in sys.stdin:
        cmd = line.strip()
        if cmd == 'SNAPSHOT':
            say('SNAP', snap())
        elif cmd == 'SHUTDOWN':
            kids = children_of(os.getpid())
            err = None
            if p2 is not None:
                try:
                    p2.shutdown()
                except BaseException as e:      # noqa: B902
                    err = 'second instance: ' + repr(e) + traceback.format_exc()[-800:]
            try:
                p.shutdown()
            except BaseException as e:      # noqa: B902
                err = (err or '') + repr(e) + traceback.format_exc()[-800:]
            say('DOWN', {'children_before': kids, 'children_after': children_of(os.getpid()), 'error': err,
                         'fds_after': fds_of(os.getpid())})
            # the embedding process lives on after shutdown(): stay until told to exit, so that whatever the
            # shut-down instance still holds (listening sockets, threads) remains observable from outside
            shut = True
        elif cmd == 'EXIT':
            return 0
    # stdin closed without EXIT: the parent went away
    try:
        if not shut:
            p.shutdown()
    except BaseException:       # noqa: B902
        pass
    return 0


if __name__ == '__main__':
    sys.exit(main())

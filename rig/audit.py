"""sys.addaudithook recorder: interpreter-level tap on socket/open/subprocess events
raised while proxy code runs (the harness flags its own calls out)."""
import sys
import threading
from typing import Any, List, Optional, Tuple

from . import shim

EVENTS = {'socket.connect', 'socket.getaddrinfo', 'socket.bind', 'socket.__new__', 'open', 'subprocess.Popen',
          'socket.gethostbyname', 'os.remove'}

_installed = False
_sink: Optional[List[Tuple[str, Any]]] = None
_tls = threading.local()


def _norm(ev: str, args: Tuple[Any, ...]) -> Any:
    try:
        if ev == 'socket.connect':
            return args[1]
        if ev == 'socket.getaddrinfo':
            return (args[0], args[1])
        if ev == 'socket.bind':
            return args[1]
        if ev == 'open':
            return (args[0], args[1])
        if ev == 'subprocess.Popen':
            return list(args[1]) if isinstance(args[1], (list, tuple)) else args[1]
        if ev == 'socket.__new__':
            return tuple(args[1:4])
        return repr(args)[:200]
    except Exception:
        return repr(args)[:200]


def _hook(ev: str, args: Tuple[Any, ...]) -> None:
    s = _sink
    if s is None or ev not in EVENTS:
        return
    if not shim.active():
        return
    if getattr(_tls, 'busy', False):
        return
    _tls.busy = True
    try:
        s.append((ev, _norm(ev, args)))
    finally:
        _tls.busy = False


def install() -> None:
    global _installed
    if not _installed:
        sys.addaudithook(_hook)
        _installed = True


def start() -> List[Tuple[str, Any]]:
    """Begin recording into a fresh list (returned)."""
    global _sink
    install()
    _sink = []
    return _sink


def stop() -> None:
    global _sink
    _sink = None

"""Conversation helpers shared by the step-rig checks: a strict incremental splitter of HTTP/1.x
request streams (what an origin or the harness itself needs in order to answer request i only
after it has read it), scripted auto-answering origins, and id-tagged request / response builders.

Nothing here is imported by the code under test; the splitter is written from RFC 9112 and is
deliberately strict (CRLF only) - leniency questions are left to the per-property oracles."""
import re
import random
from typing import Any, Callable, Dict, List, Optional, Tuple

from . import refcodec
from .peers import Peer, Origin

_REQ_LINE = re.compile(rb'^([!#$%&\'*+\-.^_`|~0-9A-Za-z]+) (\S+) (HTTP/\d\.\d)$')


class BadStream(Exception):
    pass


def split_requests(buf: bytes) -> Tuple[List[Dict[str, Any]], int]:
    """All complete requests at the head of buf -> ([{method,target,version,headers,body,raw,chunked}], consumed)."""
    out: List[Dict[str, Any]] = []
    pos = 0
    while True:
        end = buf.find(b'\r\n\r\n', pos)
        if end < 0:
            break
        head = buf[pos:end]
        lines = head.split(b'\r\n')
        m = _REQ_LINE.match(lines[0])
        if not m:
            raise BadStream('request line %r' % lines[0][:80])
        headers: List[Tuple[bytes, bytes]] = []
        for ln in lines[1:]:
            if b':' not in ln:
                raise BadStream('header line %r' % ln[:80])
            k, v = ln.split(b':', 1)
            headers.append((k.strip().lower(), v.strip(b' \t')))
        hd = dict(headers)
        body_start = end + 4
        chunked = b'chunked' in hd.get(b'transfer-encoding', b'').lower()
        if chunked:
            try:
                body, trailers, used = refcodec.dechunk(buf[body_start:])
            except refcodec.Incomplete:
                break
            except refcodec.Malformed as e:
                raise BadStream(str(e))
            stop = body_start + used
        else:
            n = int(hd.get(b'content-length', b'0') or b'0')
            if len(buf) < body_start + n:
                break
            body = buf[body_start:body_start + n]
            stop = body_start + n
        out.append({'method': m.group(1), 'target': m.group(2), 'version': m.group(3), 'headers': headers,
                    'hd': hd, 'body': bytes(body), 'raw': bytes(buf[pos:stop]), 'chunked': chunked})
        pos = stop
    return out, pos


class OriginConn:
    """One accepted origin-side connection: reads, splits requests strictly, holds queued response pieces."""

    def __init__(self, peer: Peer, origin_name: str) -> None:
        self.peer = peer
        self.origin_name = origin_name
        self.consumed = 0
        self.requests: List[Dict[str, Any]] = []
        self.bad: Optional[str] = None
        self.out: List[bytes] = []          # pieces not yet (fully) sent
        self.close_after_out = False

    def poll(self) -> List[Dict[str, Any]]:
        self.peer.pump()
        if self.bad:
            return []
        try:
            new, used = split_requests(bytes(self.peer.rx[self.consumed:]))
        except BadStream as e:
            self.bad = str(e)
            return []
        self.consumed += used
        self.requests.extend(new)
        return new

    def send_some(self) -> int:
        """Send (part of) the next queued piece; returns bytes accepted."""
        if not self.out:
            if self.close_after_out and not self.peer.closed:
                self.peer.close()
            return 0
        n = self.peer.send(self.out[0])
        if n < 0:
            self.out = []
            return 0
        if n >= len(self.out[0]):
            self.out.pop(0)
        elif n > 0:
            self.out[0] = self.out[0][n:]
        return n

    @property
    def idle(self) -> bool:
        return not self.out


class AutoOrigin:
    """A named origin: listening socket + a responder callback (request dict, origin name) -> list of byte pieces."""

    def __init__(self, origin: Origin, name: str, responder: Callable[[Dict[str, Any], str], List[bytes]]) -> None:
        self.origin = origin
        self.name = name
        self.responder = responder
        self.conns: List[OriginConn] = []

    def tick(self, answer: bool = True) -> int:
        """Accept, read, queue answers for newly completed requests.  Returns number of new requests."""
        for p in self.origin.accept_all():
            self.conns.append(OriginConn(p, self.name))
        n = 0
        for c in self.conns:
            for req in c.poll():
                n += 1
                req['origin'] = self.name
                if answer:
                    c.out.extend(self.responder(req, self.name))
        return n

    def pending_output(self) -> bool:
        return any(c.out for c in self.conns)

    def all_requests(self) -> List[Dict[str, Any]]:
        return [r for c in self.conns for r in c.requests]


def tagged_response(rng: random.Random, origin: str, rid: str, framing: str = 'cl', pieces: int = 1,
                    extra: bytes = b'') -> List[bytes]:
    """A response whose body names the origin and the request id: '<origin>|<rid>|pad'."""
    body = b'%s|%s|' % (origin.encode(), rid.encode()) + extra
    if framing == 'chunked':
        sizes = []
        left = len(body)
        while left > 0:
            s = rng.randint(1, left)
            sizes.append(s)
            left -= s
        raw = (b'HTTP/1.1 200 OK\r\nX-Origin: %s\r\nX-Req-Id: %s\r\nTransfer-Encoding: chunked\r\n\r\n' % (origin.encode(), rid.encode())
               + refcodec.enchunk(body, sizes))
    else:
        raw = (b'HTTP/1.1 200 OK\r\nX-Origin: %s\r\nX-Req-Id: %s\r\nContent-Length: %d\r\n\r\n' % (origin.encode(), rid.encode(), len(body))
               + body)
    if pieces <= 1 or len(raw) < 2:
        return [raw]
    cuts = sorted(rng.sample(range(1, len(raw)), min(pieces - 1, len(raw) - 1)))
    out = []
    prev = 0
    for c in cuts + [len(raw)]:
        out.append(raw[prev:c])
        prev = c
    return out


def cut_bytes(rng: random.Random, data: bytes, n: int) -> List[bytes]:
    if n <= 0 or len(data) < 2:
        return [data]
    cuts = sorted(set(rng.randint(1, len(data) - 1) for _ in range(n)))
    out = []
    prev = 0
    for c in cuts + [len(data)]:
        out.append(data[prev:c])
        prev = c
    return out

"""Virtual clock: replaces the ``time`` module *as seen by proxy.http.handler only* (the module attribute the
handler reads for start_time / last_activity / idle computation).  Nothing else in the process sees it."""
import time as _real_time
from typing import Any, Optional

import proxy.http.handler as _handler


class VClock:
    def __init__(self, start: float = 1000000.0) -> None:
        self.now = start
        self.reads = 0

    def time(self) -> float:
        self.reads += 1
        return self.now

    def advance(self, dt: float) -> None:
        assert dt >= 0
        self.now += dt

    def __getattr__(self, name: str) -> Any:      # anything else the module might use (sleep, monotonic, ...)
        return getattr(_real_time, name)


_installed: Optional[VClock] = None


def install(start: float = 1000000.0) -> VClock:
    global _installed
    vc = VClock(start)
    _handler.time = vc      # type: ignore[assignment]
    _installed = vc
    return vc


def uninstall() -> None:
    global _installed
    _handler.time = _real_time      # type: ignore[assignment]
    _installed = None

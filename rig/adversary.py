"""The adversarial connection used by C05 (beside canaries) and C10 (alone, for resource accounting):
set-up of its origins / routes / fault filter, and one scheduler action at a time (``act``).

adv = {'class': prefix|bytes|upstream|client-abort-with-queued-output|upstream-never-reads|reverse-switch|fault,
       'role': forward|forward-post|tunnel|web|reverse, 'prefix': n, 'ending': close|reset|half-close|silence,
       'upstream': ok|refuse|unresolvable|..., 'kind'/'index'/'errno' (fault), ...}"""
import os as _os
import random
from typing import Any, Callable, Dict, List, Optional

from . import shim, conv, resolver, gen_http as G
from .peers import refused_port


def responses_complete(data: bytes) -> int:
    from . import h11util
    ms, err, _ = h11util.parse_responses(data, [b'GET'] * 4, eof=False)
    return sum(1 for m in ms if m['complete'])


ROLE_SCRIPTS = ['forward', 'forward-post', 'tunnel', 'web', 'reverse']
UPSTREAM_BEHAVIOURS = ['refuse', 'unresolvable', 'reset-on-accept', 'close-on-accept', 'garbage', 'bad-chunk-size', 'bad-content-length',
                       'close-mid-body', 'reset-mid-body', 'huge-then-reset']
ERRNOS = {'recv': ['ECONNRESET', 'ETIMEDOUT', 'EHOSTUNREACH'], 'send': ['EPIPE', 'ECONNRESET'],
          'connect': ['ECONNREFUSED', 'ETIMEDOUT', 'ENETUNREACH', 'EHOSTUNREACH']}


def adversary_script(role: str, hp: bytes) -> bytes:
    if role == 'forward':
        return b'GET http://%s/adv HTTP/1.1\r\nHost: %s\r\nX-Req-Id: adv\r\n\r\n' % (hp, hp)
    if role == 'forward-post':
        return (b'POST http://%s/adv HTTP/1.1\r\nHost: %s\r\nX-Req-Id: adv\r\nTransfer-Encoding: chunked\r\n\r\n' % (hp, hp)
                + b'5\r\nhello\r\n6\r\n world\r\n0\r\n\r\n')
    if role == 'tunnel':
        return b'CONNECT %s HTTP/1.1\r\nHost: %s\r\n\r\n' % (hp, hp) + b'tunnel-payload-' * 20
    if role == 'web':
        return b'GET /wa/adv HTTP/1.1\r\nHost: w.test\r\nX-Req-Id: adv\r\n\r\nGET /wa/adv2 HTTP/1.1\r\nHost: w.test\r\nX-Req-Id: adv2\r\n\r\n'
    return b'GET /ra/adv HTTP/1.1\r\nHost: r.test\r\nX-Req-Id: adv\r\n\r\nPOST /ra/adv2 HTTP/1.1\r\nHost: r.test\r\nX-Req-Id: adv2\r\nContent-Length: 3\r\n\r\nabc'


class Adversary:
    def __init__(self, rig: Any, adv: Dict[str, Any], rng: random.Random, case: Dict[str, Any], routes: Dict[str, Any],
                 make_bytes: Optional[Callable[[bytes], bytes]] = None, holes: Optional[List[int]] = None,
                 before_client: Optional[Callable[[], None]] = None) -> None:
        """routes = the reverse-proxy route table dict of checks/c04.py (keys A, A2, B)."""
        holes = holes if holes is not None else []
        c04_routes = routes
        # ---- adversary set-up ----
        role = adv.get('role', 'forward')
        aorigin = None
        behaviour = adv.get('upstream', 'ok')
        hp = b'127.0.0.1:9'
        if behaviour == 'refuse':
            hp = b'127.0.0.1:%d' % refused_port('127.0.0.1')
        elif behaviour == 'unresolvable':
            hp = b'no-such-host-%d.test:80' % case['i']
        else:
            aorigin = rig.add_origin('127.0.%d.%d' % (rng.randint(0, 250), rng.randint(2, 250)))
            hp = aorigin.hostport
            if adv['class'] == 'upstream-never-reads':
                import socket as _s
                aorigin.lsock.setsockopt(_s.SOL_SOCKET, _s.SO_RCVBUF, 4096)     # inherited by the accepted connection
        aorigin2 = None
        if role == 'reverse':
            c04_routes['A'] = b'http://%s/pa' % hp
            if adv['class'] == 'reverse-switch':
                # route /ra/ has two upstream URLs: consecutive requests of one client connection get routed to either,
                # so the connection keeps closing one upstream socket and opening another while it stays alive
                aorigin2 = rig.add_origin('127.0.%d.%d' % (rng.randint(0, 250), rng.randint(2, 250)))
                c04_routes['A2'] = b'http://%s/pa2' % aorigin2.hostport
        if before_client is not None:
            before_client()
        aclient = rig.add_client('tcp')
        a_peer = aclient.sock.getsockname()
        a_origin_addr = (aorigin.host, aorigin.port) if aorigin is not None else None

        def is_adversary_socket(k: str, sock: Any, addr: Any) -> bool:
            if k == 'connect':
                return a_origin_addr is not None and addr is not None and (addr[0], addr[1]) == a_origin_addr
            try:
                pn = sock.getpeername()
            except OSError:
                return False
            return pn == a_peer or (a_origin_addr is not None and (pn[0], pn[1]) == a_origin_addr)
        shim.S.fault_filter = is_adversary_socket
        if adv['class'] == 'fault':
            shim.set_fault(adv['kind'], adv['index'], adv['errno'])
        # what the adversary's client sends
        autos: List[conv.AutoOrigin] = []
        if adv['class'] == 'reverse-switch':
            resp = lambda req, name: [b'HTTP/1.1 200 OK\r\nContent-Length: 2\r\n\r\nok']     # noqa: E731
            autos = [conv.AutoOrigin(aorigin, 'A1', resp), conv.AutoOrigin(aorigin2, 'A2', resp)]
        if adv['class'] == 'upstream-never-reads':
            up = G.coded(b'Z', adv.get('upload', 4000000))
            if role == 'tunnel':
                data = b'CONNECT %s HTTP/1.1\r\nHost: %s\r\n\r\n' % (hp, hp) + up
            elif role == 'reverse':
                data = b'POST /ra/up HTTP/1.1\r\nHost: r.test\r\nContent-Length: %d\r\n\r\n' % len(up) + up
            else:
                data = b'POST http://%s/up HTTP/1.1\r\nHost: %s\r\nContent-Length: %d\r\n\r\n' % (hp, hp, len(up)) + up
        elif adv['class'] == 'bytes':
            data = make_bytes(hp)
        else:
            data = adversary_script(role, hp)
        cut = adv.get('prefix')
        if cut is not None:
            data = data[:cut % (len(data) + 1)]
        pieces = conv.cut_bytes(rng, data, adv.get('ncuts', 1)) if data else []
        ending = adv.get('ending', 'close')
        a_state = {'pi': 0, 'ended': False, 'oc': None, 'answered': False, 'quiet': 0}
        big = G.coded(b'A', adv.get('resp_size', 3000))

        def adversary_act() -> None:
            st = a_state
            if autos:
                # keep-alive series: next request once the previous one was answered
                aclient.pump()
                for ao_ in autos:
                    ao_.tick()
                    for oc_ in ao_.conns:
                        oc_.send_some()
                n = responses_complete(bytes(aclient.rx))
                if n >= 1 and holes:
                    while holes:
                        _os.close(holes.pop())
                if st['pi'] <= n and st['pi'] < adv.get('requests', 8):
                    aclient.send(b'GET /ra/s%d HTTP/1.1\r\nHost: r.test\r\nX-Req-Id: s%d\r\n\r\n' % (st['pi'], st['pi']))
                    st['pi'] += 1
                elif n >= adv.get('requests', 8) or aclient.ended:
                    st['ended'] = True          # and stays connected, silently (ending == 'silence') unless told otherwise
                    if ending == 'close' and not aclient.closed:
                        aclient.close()
                return
            aclient.pump(4096 if adv.get('slow_reader') else None) if not adv.get('never_reads') else None
            # upstream side of the adversary
            if aorigin is not None and adv['class'] == 'upstream-never-reads':
                if st['oc'] is None:
                    st['oc'] = aorigin.accept()     # accepted, never read from
                st['answered'] = True
            elif aorigin is not None and not st['answered']:
                if st['oc'] is None:
                    st['oc'] = aorigin.accept()
                oc = st['oc']
                if oc is not None:
                    oc.pump()
                    if behaviour == 'reset-on-accept':
                        oc.reset_close()
                        st['answered'] = True
                    elif behaviour == 'close-on-accept':
                        oc.close()
                        st['answered'] = True
                    elif oc.rx:
                        if behaviour == 'garbage':
                            oc.send(bytes(rng.getrandbits(8) for _ in range(300)))
                        elif behaviour == 'bad-chunk-size':
                            oc.send(b'HTTP/1.1 200 OK\r\nTransfer-Encoding: chunked\r\n\r\nZZ\r\nhello\r\n-3\r\nxx\r\n0\r\n\r\n')
                        elif behaviour == 'bad-content-length':
                            oc.send(b'HTTP/1.1 200 OK\r\nContent-Length: -5\r\nContent-Length: abc\r\n\r\nhello')
                        elif behaviour == 'close-mid-body':
                            oc.send(b'HTTP/1.1 200 OK\r\nContent-Length: 100000\r\n\r\n' + big[:1000])
                            oc.close()
                        elif behaviour == 'reset-mid-body':
                            oc.send(b'HTTP/1.1 200 OK\r\nContent-Length: 100000\r\n\r\n' + big[:1000])
                            oc.reset_close()
                        elif behaviour == 'huge-then-reset':
                            oc.send(b'HTTP/1.1 200 OK\r\nContent-Length: %d\r\n\r\n' % (len(big) * 50) + big * 20)
                            oc.reset_close()
                        elif role == 'tunnel':
                            oc.send(b'echo:' + bytes(oc.rx[:50]))
                        else:
                            oc.send(b'HTTP/1.1 200 OK\r\nContent-Length: %d\r\n\r\n' % len(big) + big)
                        st['answered'] = True
            # client side of the adversary
            if st['pi'] < len(pieces):
                n = aclient.send(pieces[st['pi']])
                if n < 0 or n >= len(pieces[st['pi']]):
                    st['pi'] += 1
                elif n > 0:
                    pieces[st['pi']] = pieces[st['pi']][n:]
            elif not st['ended']:
                st['quiet'] += 1
                if st['quiet'] >= adv.get('linger', 3):
                    if ending == 'close':
                        aclient.close()
                    elif ending == 'reset':
                        aclient.reset_close()
                    elif ending == 'half-close':
                        aclient.shutdown_wr()
                    st['ended'] = True
        self.act = adversary_act
        self.state = a_state
        self.client = aclient
        self.origin = aorigin
        self.origin2 = aorigin2
        self.autos = autos
        self.hp = hp

    @property
    def ended(self) -> bool:
        return bool(self.state['ended'])

    @property
    def upstream_settled(self) -> bool:
        return self.origin is None or bool(self.state['answered'])

    def harness_close(self) -> None:
        """Close every harness-side socket of the adversary (origin side included)."""
        if not self.client.closed:
            self.client.close()
        oc = self.state.get('oc')
        if oc is not None and not oc.closed:
            oc.close()
        for ao in self.autos:
            for c in ao.conns:
                if not c.peer.closed:
                    c.peer.close()
